/-
C05, tie A: the structural rules that the goroutine-per-cell closures (generated `Run` methods, the wrapper template)
and the goroutine-per-model closure of ow-sim must obey, as a decidable check on facts extracted from the source by
/verif/harness/cmd/owrunfacts (go/parser + go/ast). Hand-written; the data is regenerated into OW/Gen/RunFacts.lean
on every run of the check. Core Lean only.

An `Event` is one use, inside the closure, of something shared between the goroutines — a variable captured from the
enclosing function, a package-level variable, a local that aliases one of these, or a view obtained from one with
`Slice` — other than a plain read. The rules are GENERAL (they mention no variable names and no positions):

* `sharedWrite`: an assignment to a shared variable or to an element/field of one, taking its address, or a call of a
  mutating array method (`Set Set1 Set2 Set3 Apply Apply1 ApplySlice CopyFrom`) — UNLESS the call is pinned to the
  goroutine's own cell: made through a view sliced at the closure's own cell parameter (`viewOwn`), or made on the
  captured array itself with a location whose cell coordinate is the closure's own cell parameter (`ownLit`:
  `[]int{i, …}`; `ownVec`: a goroutine-local vector created inside the closure whose cell coordinate was set to `i`).
* `sharedLoc`: a location vector shared between goroutines passed as `loc` (`Apply` temporarily mutates its `loc`,
  and the position vectors are written per cell: they must be declared inside the closure).
* `badArg`: a shared non-scalar variable handed to a callee, except in the read-only positions `Slice(_, dims, step)`,
  `ApplySlice(_, step, _)`, `Reshape/MustReshape/ReshapeFast(shape)`.
* loop variable: the closure gets the loop variable as a parameter and uses neither the loop variable itself nor a
  variable declared in the loop body.
* join: every path through the closure ends with exactly one send on the done channel and there is no `return`; the
  number of goroutines launched is a loop bound (or a counter incremented once next to the `go` statement) that is
  not modified elsewhere, and a later loop receives exactly that many times; the channel is used for nothing else.
* callees: the plain functions reachable from the closure inside the repository assign to nothing but their own
  locals (no package-level scratch state).
-/
namespace OW.Sim.RunFactsCheck

inductive Root | captured | global | alias | viewOwn | viewShared
  deriving DecidableEq, Repr
inductive Access | assign | elemAssign | addr | call | arg | send | recv
  deriving DecidableEq, Repr
inductive Meth | set | set1 | set2 | set3 | apply | apply1 | applySlice | copyFrom | slice | reshape | other
  deriving DecidableEq, Repr
inductive Loc | ownLit | ownVec | modLit | modVec | sharedVec | localOther | other | none
  deriving DecidableEq, Repr
inductive Kind | cells | models | template
  deriving DecidableEq, Repr
inductive LaunchForm | counted | counter | other
  deriving DecidableEq, Repr

structure Event where
  line : Nat
  var : String
  root : Root
  scalar : Bool
  access : Access
  meth : Meth
  loc : Loc
  argPos : Nat
  isMethod : Bool
  isDoneChan : Bool
  deriving Repr

structure Site where
  file : String
  func : String
  kind : Kind
  cellParamBound : Bool
  capturesLoopVar : Bool
  loopBodyVarsCaptured : Nat
  unsupported : Nat
  hasChan : Bool
  sends : Nat
  sendTail : Bool
  returnsInClosure : Nat
  launch : LaunchForm
  goTopLevelOnce : Bool
  launchLoopClean : Bool
  countReassigned : Bool
  recvLoopFound : Bool
  sameBound : Bool
  recvPerIter : Nat
  recvLoopClean : Bool
  otherChanUses : Nat
  calleeWrites : Nat
  events : List Event
  deriving Repr

structure Facts where
  dimS : Int
  dimO : Int
  dimI : Int
  errors : Nat
  wrapperFiles : Nat
  wrapperSites : Nat
  templateVariants : Nat
  templateSites : Nat
  sites : List Site
  deriving Repr

def Meth.mutating : Meth → Bool
  | .set | .set1 | .set2 | .set3 | .apply | .apply1 | .applySlice | .copyFrom => true
  | _ => false

/-- the access is pinned to the goroutine's own cell -/
def Event.ownCell (e : Event) : Bool :=
  match e.root, e.loc with
  | .viewOwn, _ => true
  | .captured, .ownLit => true
  | .captured, .ownVec => true
  | _, _ => false

def Event.sharedWrite (e : Event) : Bool :=
  match e.access with
  | .assign | .elemAssign | .addr => true
  | .call => e.meth.mutating && !e.ownCell
  | _ => false

def Event.sharedLoc (e : Event) : Bool :=
  match e.access, e.loc with
  | .call, .sharedVec => true
  | _, _ => false

def Event.readOnlyArgPosition (e : Event) : Bool :=
  e.isMethod && (match e.meth with
    | .slice => e.argPos == 1 || e.argPos == 2
    | .applySlice => e.argPos == 1
    | .reshape => e.argPos == 0
    | _ => false)

def Event.badArg (e : Event) : Bool :=
  match e.access with
  | .arg => !e.scalar && !e.isDoneChan && !e.readOnlyArgPosition
  | _ => false

def Event.badChan (e : Event) : Bool :=
  match e.access with
  | .recv => true
  | .send => !e.isDoneChan
  | _ => false

def Event.ok (e : Event) : Bool := !e.sharedWrite && !e.sharedLoc && !e.badArg && !e.badChan

def Site.loopVarOk (s : Site) : Bool := s.cellParamBound && !s.capturesLoopVar && s.loopBodyVarsCaptured == 0

def Site.sendOk (s : Site) : Bool :=
  s.hasChan && s.sendTail && s.returnsInClosure == 0 &&
    (match s.kind with | .models => decide (1 ≤ s.sends) | _ => s.sends == 1)

def Site.launchOk (s : Site) : Bool :=
  (match s.launch with | .other => false | _ => true) && s.goTopLevelOnce && s.launchLoopClean && !s.countReassigned

def Site.recvOk (s : Site) : Bool :=
  s.recvLoopFound && s.sameBound && s.recvPerIter == 1 && s.recvLoopClean && s.otherChanUses == 0

def Site.ok (s : Site) : Bool :=
  s.events.all Event.ok && s.loopVarOk && s.unsupported == 0 && s.sendOk && s.launchOk && s.recvOk && s.calleeWrites == 0

/-- names of the rules a site violates (for the report) -/
def Site.violated (s : Site) : List String :=
  (if s.events.any Event.sharedWrite then ["shared-write"] else []) ++
  (if s.events.any Event.sharedLoc then ["shared-loc"] else []) ++
  (if s.events.any Event.badArg then ["shared-arg"] else []) ++
  (if s.events.any Event.badChan || !s.sendOk || !s.launchOk || !s.recvOk then ["join"] else []) ++
  (if !s.loopVarOk then ["loop-var"] else []) ++
  (if s.unsupported != 0 then ["unsupported"] else []) ++
  (if s.calleeWrites != 0 then ["callee-global-write"] else [])

def runFactsOk (f : Facts) : Bool :=
  f.dimS == 0 && f.dimO == 0 && f.dimI == 0 && f.errors == 0 &&
  f.wrapperFiles == f.wrapperSites && f.templateVariants == f.templateSites && decide (1 ≤ f.templateSites) &&
  f.sites.all Site.ok

/-- what `runFactsOk = true` gives: in every analysed closure no event is a shared write, no shared vector is used as
a location, the loop variable reaches the closure only as a parameter, and the send / receive counts match. -/
theorem runFactsOk_sound (f : Facts) (h : runFactsOk f = true) :
    ∀ s, s ∈ f.sites →
      (∀ e, e ∈ s.events → e.sharedWrite = false ∧ e.sharedLoc = false ∧ e.badArg = false ∧ e.badChan = false) ∧
      s.loopVarOk = true ∧ s.sendOk = true ∧ s.launchOk = true ∧ s.recvOk = true ∧ s.calleeWrites = 0 := by
  intro s hs
  simp only [runFactsOk, Bool.and_eq_true, List.all_eq_true] at h
  have hsite := h.2 s hs
  simp only [Site.ok, Bool.and_eq_true, List.all_eq_true, beq_iff_eq] at hsite
  obtain ⟨⟨⟨⟨⟨⟨he, hl⟩, _⟩, hso⟩, hla⟩, hr⟩, hc⟩ := hsite
  refine ⟨?_, hl, hso, hla, hr, hc⟩
  intro e hee
  have := he e hee
  simp only [Event.ok, Bool.and_eq_true, Bool.not_eq_true'] at this
  exact ⟨this.1.1.1, this.1.1.2, this.1.2, this.2⟩

end OW.Sim.RunFactsCheck
