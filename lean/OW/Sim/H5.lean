import OW.Nd.Array
/-
Model of /repo/io/hdf5.go (= every instantiation in gen-hdf5.go), /repo/io/hdf5_util.go and /repo/conv/slices.go
(core Lean only), over

* the n-d array model `OW.Nd` (source arrays are `(Heap Int, Arr)`, consumed through `Unroll()`; results are fresh
  root arrays, printed as shape + row-major values),
* an abstract file: `Disk = Option Tree` (`none` = no file), `Tree` = the objects of the file by path
  (groups and datasets `(shape, row-major elements)`),
* the SPECIFICATION of the library (`Selection`, `selectHyperslab`, `linear`, `h5read`, `h5write`): HDF5's regular
  hyperslab — along a dimension the coordinates `offset + k*stride + b`, `k < count`, `b < block` —, traversal in
  row-major order, the transfer rules of H5Dread/H5Dwrite (equal numbers of selected elements, selections inside the
  extents) and gonum's wrapper code around them. The same semantics is implemented by /verif/harness/hdf5stub.

`sliceSize` rounds up: the code as repaired by `/verif/fixes/h5_slicesize_ceil.diff` (fix commit 6552b9c in /repo);
`sliceSizeFloor` is the code before the repair.
One defect is mirrored (known finding KF-C08-int-width, not repaired):
* `narrow = true` for the element types `int` and `uint`: gonum maps them to H5T_NATIVE_INT/UINT (4 bytes) and passes
  the dataset's type as memory type, so the 8-byte Go elements are copied as pairs of 4-byte file elements
  (`packBuf`/`unpackBuf`); element values are assumed in `[0, 2^31)` there.

Go `int` is `Int` (no overflow), `uint` is `Nat` with `uint(x) = x mod 2^64`. Shapes are assumed non-negative and
small (a dataset of more than 2^40 bytes is refused by the stub, not by this model); rank-0 shapes are outside the
model (gonum's wrapper panics on them).
-/
namespace OW.Sim.H5
open OW.Nd

/-! ## util/m, conv -/

/-- `m.MinInt` -/
def minInt (a b : Int) : Int := if a > b then b else a
/-- `m.MaxInt` -/
def maxInt (a b : Int) : Int := if a > b then a else b

def two64 : Int := 18446744073709551616
def two32 : Int := 4294967296

/-- Go `uint(x)` for an `int` x (`-2^63 ≤ x < 2^63`): `x` itself when non-negative, else `x + 2^64` -/
def toUint (x : Int) : Nat := if 0 ≤ x then x.toNat else (x + two64).toNat

/-- `conv.IntsToUints` -/
def intsToUints (l : Idx) : List Nat := l.map toUint
/-- `conv.UintsToInts` (extents below 2^63) -/
def uintsToInts (l : List Nat) : Idx := l.map Int.ofNat

/-! ## sliceSize, makeHyperslab (hdf5_util.go) -/

/-- one entry of `H5Ref.Slice`: `none` = Go `nil`, `some [start, stop, step]` -/
abbrev SelDim := Option (List Int)
abbrev Sel := List SelDim

/-- `sliceSize(slice, size)` (since fix 6552b9c): `(MaxInt(0, MinInt(size,slice[1]) - MinInt(size,slice[0])) + slice[2] - 1) / slice[2]`.
Go `/` truncates; `slice[i]` out of range and a zero step panic. -/
def sliceSize (sl : List Int) (size : Int) : R Int :=
  match sl with
  | s0 :: s1 :: s2 :: _ =>
    if s2 = 0 then .error "int-div-zero"
    else .ok ((maxInt 0 (minInt size s1 - minInt size s0) + s2 - 1).tdiv s2)
  | _ => oob

/-- `sliceSize` as it was before the repair: `MaxInt(0, …) / slice[2]` (rounds down) -/
def sliceSizeFloor (sl : List Int) (size : Int) : R Int :=
  match sl with
  | s0 :: s1 :: s2 :: _ =>
    if s2 = 0 then .error "int-div-zero"
    else .ok ((maxInt 0 (minInt size s1 - minInt size s0)).tdiv s2)
  | _ => oob

structure Slab where
  offset : List Nat
  stride : List Nat
  count : List Nat
  block : List Nat
  deriving Repr, DecidableEq

/-- body of the loop of `makeHyperslab` for dimension `i`: (offset, stride, count) -/
def slabDim (dims : Idx) (i : Nat) : SelDim → R (Nat × Nat × Nat)
  | none =>
    match dims[i]? with
    | some n => .ok (0, 1, toUint n)
    | none => oob
  | some sl =>
    match sl with
    | s0 :: _ :: s2 :: _ =>
      match dims[i]? with
      | none => oob
      | some n => do
        let c ← sliceSize sl n
        pure (toUint s0, toUint s2, toUint c)
    | _ => oob

def slabDims (dims : Idx) : Nat → Sel → R (List (Nat × Nat × Nat))
  | _, [] => .ok []
  | i, d :: rest => do
    let e ← slabDim dims i d
    let r ← slabDims dims (i + 1) rest
    pure (e :: r)

/-- `makeHyperslab(slice, dims)` -/
def makeHyperslab (sel : Sel) (dims : Idx) : R Slab := do
  let l ← slabDims dims 0 sel
  pure { offset := l.map (·.1), stride := l.map (·.2.1), count := l.map (·.2.2), block := l.map (fun _ => 1) }

/-! ## the library: dataspaces, hyperslabs, transfers (SPECIFICATION) -/

inductive Selection where
  | all
  | none
  | hyper (offset stride count block : List Nat)
  deriving Repr, DecidableEq

def prodN : List Nat → Nat
  | [] => 1
  | d :: ds => d * prodN ds

/-- coordinates selected along one dimension: `offset + k*stride + b`, `k < count`, `b < block`, increasing -/
def dimCoords (offset stride count block : Nat) : List Nat :=
  (List.range count).flatMap fun k => (List.range block).map fun b => offset + k * stride + b

/-- all selected coordinates of one dimension lie below `extent` (closed form, for `count, block ≥ 1`) -/
def dimWithin (offset stride count block extent : Nat) : Bool :=
  decide (offset + (count - 1) * stride + (block - 1) < extent)

def zip4 : List Nat → List Nat → List Nat → List Nat → List (Nat × Nat × Nat × Nat)
  | a :: as, b :: bs, c :: cs, d :: ds => (a, b, c, d) :: zip4 as bs cs ds
  | _, _, _, _ => []

/-- `Dataspace.SelectHyperslab` (gonum wrapper + H5Sselect_hyperslab, H5S_SELECT_SET) on a dataspace of extent `dims`
whose current selection is `cur`. Not checked against the extent (HDF5 checks at the transfer). -/
def selectHyperslab (dims : List Nat) (cur : Selection) (offset stride count block : List Nat) : Except String Selection :=
  let rank := offset.length
  if rank = 0 then .ok cur                       -- gonum: H5Soffset_simple(id, NULL), nothing selected anew
  else if rank ≠ dims.length then .error "rank"  -- gonum: "size of offset does not match extent"
  else if count.length < rank ∨ stride.length < rank ∨ block.length < rank then .error "args"
  else
    let stride := stride.take rank
    let count := count.take rank
    let block := block.take rank
    if stride.any (· == 0) then .error "stride0"
    else if (zip4 offset stride count block).any (fun (_, s, c, b) => decide (c > 1) && decide (s < b)) then .error "overlap"
    else if count.any (· == 0) || block.any (· == 0) then .ok .none
    else .ok (.hyper offset stride count block)

/-- per-dimension coordinate lists of a selection -/
def selCoords (dims : List Nat) : Selection → List (List Nat)
  | .all => dims.map List.range
  | .none => dims.map (fun _ => [])
  | .hyper o s c b => (zip4 o s c b).map fun (o, s, c, b) => dimCoords o s c b

/-- row-major cartesian product (last list varies fastest) -/
def cartesian : List (List Nat) → List (List Nat)
  | [] => [[]]
  | l :: ls => l.flatMap fun x => (cartesian ls).map (x :: ·)

/-- row-major rank of coordinates within an extent -/
def ravelN : List Nat → List Nat → Nat
  | c :: cs, _ :: ds => c * prodN ds + ravelN cs ds
  | _, _ => 0

/-- the selected elements as row-major element numbers of the extent, in HDF5's traversal order -/
def linear (dims : List Nat) (sel : Selection) : List Nat :=
  match sel with
  | .none => []
  | s => (cartesian (selCoords dims s)).map (ravelN · dims)

/-- H5Sget_select_npoints -/
def npoints (dims : List Nat) : Selection → Nat
  | .all => prodN dims
  | .none => 0
  | .hyper _ _ c b => prodN ((List.zip c b).map fun (c, b) => c * b)

/-- H5S_SELECT_VALID -/
def selValid (dims : List Nat) : Selection → Bool
  | .hyper o s c b => (List.zip (zip4 o s c b) dims).all fun ((o, s, c, b), e) => dimWithin o s c b e
  | _ => true

/-- H5Dread into a buffer whose memory dataspace has `nMem` elements, all selected: buffer element `k` := the
`k`-th selected file element; the rest of the buffer is untouched. -/
def h5read (vals : List Int) (fdims : List Nat) (fsel : Selection) (nMem : Nat) (buf : List Int) : Except String (List Int) :=
  if nMem ≠ npoints fdims fsel then .error "count"
  else if ¬ selValid fdims fsel then .error "sel"
  else .ok ((linear fdims fsel).map (fun i => vals.getD i 0) ++ buf.drop nMem)

/-- sequential stores -/
def scatter (vals : List Int) : List Nat → List Int → List Int
  | i :: is, x :: xs => scatter (vals.set i x) is xs
  | _, _ => vals

/-- H5Dwrite from a buffer whose memory dataspace has `nMem` elements, all selected -/
def h5write (vals : List Int) (fdims : List Nat) (fsel : Selection) (nMem : Nat) (buf : List Int) : Except String (List Int) :=
  if nMem ≠ npoints fdims fsel then .error "count"
  else if ¬ selValid fdims fsel then .error "sel"
  else .ok (scatter vals (linear fdims fsel) buf)

/-! ### memory elements ↔ file elements (gonum: memory type = dataset type, no conversion) -/

/-- the Go slice handed to the library, in units of FILE elements -/
def packBuf (narrow : Bool) (vals : List Int) : List Int :=
  if narrow then vals.flatMap fun x => [x % two32, (x / two32) % two32] else vals

def unpairs : List Int → List Int
  | lo :: hi :: rest => (lo + hi * two32) :: unpairs rest
  | [lo] => [lo]
  | [] => []

/-- the Go slice after the library has filled it -/
def unpackBuf (narrow : Bool) (buf : List Int) : List Int := if narrow then unpairs buf else buf

/-- a freshly made result array of `n` elements (`NewArray`), in units of file elements -/
def zeroBuf (narrow : Bool) (n : Nat) : List Int := List.replicate (if narrow then 2 * n else n) 0

/-! ## the abstract file -/

inductive Obj where
  | group
  | ds (shape : List Nat) (vals : List Int)
  deriving Repr, DecidableEq

abbrev Path := List String
/-- all objects below the root group, by path -/
abbrev Tree := List (Path × Obj)
/-- the file on disk (`none`: it does not exist) -/
abbrev Disk := Option Tree

def find (t : Tree) (p : Path) : Option Obj := if p = [] then some .group else t.lookup p

/-- replace the elements of the dataset at `p` (the first entry with that path, which is the one `find` returns) -/
def setVals : Tree → Path → List Int → Tree
  | [], _, _ => []
  | (q, o) :: rest, p, vals =>
    if q = p then
      (match o with
        | .ds s _ => (q, .ds s vals)
        | .group => (q, .group)) :: rest
    else (q, o) :: setVals rest p vals

/-- every dataset holds as many elements as its shape says -/
def WF (t : Tree) : Prop := ∀ p s v, (p, Obj.ds s v) ∈ t → v.length = prodN s

/-- components of an HDF5 path name (empty components and "." do not count) -/
def splitPath (s : String) : Path := (s.splitOn "/").filter (fun c => c != "" && c != ".")

/-- result of an io call: value, returned error (class), or panic (class) -/
inductive Res (α : Type) where
  | ok (a : α)
  | err (cls : String)
  | panic (cls : String)
  deriving Repr, DecidableEq

/-- `openWriteOrCreate(fn, createIfNotExist)`: a created file exists (empty) from then on -/
def openW (d : Disk) (create : Bool) : Disk × Except String Tree :=
  match d with
  | some t => (d, .ok t)
  | none => if create then (some [], .ok []) else (none, .error "nofile")

/-- `f.OpenDataset(path)` -/
def openDataset (t : Tree) (path : String) : Except String (Path × List Nat × List Int) :=
  let p := splitPath path
  if p = [] then .error "notfound"
  else match find t p with
    | some (.ds s v) => .ok (p, s, v)
    | _ => .error "notfound"

def stripLead : List String → List String
  | "" :: rest => rest
  | l => l

theorem stripLead_length_le (l : List String) : (stripLead l).length ≤ l.length := by
  unfold stripLead; split <;> simp

/-- `createDataset(g, path, shape, …)`: `comps = strings.Split(path, "/")`, `cur` = the group `g`. Groups that are missing
are created on the way and stay even when the dataset cannot be created. A new dataset reads as zeros.
`paths[0] == ""` drops one leading empty component; if nothing is left, `paths[0]` panics (path "g/h/"). -/
def createDs (dims : List Nat) (t : Tree) (cur : Path) (comps : List String) : Tree × Res Path :=
  match _h : stripLead comps with
  | [] => (t, .panic "index-out-of-range")
  | [name] =>
    if name = "" ∨ name = "." then (t, .err "create")     -- the library refuses an empty name
    else match find t (cur ++ [name]) with
      | some _ => (t, .err "create")
      | none => (t ++ [(cur ++ [name], .ds dims (List.replicate (prodN dims) 0))], .ok (cur ++ [name]))
  | g :: r :: rest =>
    if g = "" ∨ g = "." then createDs dims t cur (r :: rest)
    else match find t (cur ++ [g]) with
      | some .group => createDs dims t (cur ++ [g]) (r :: rest)
      | some (.ds _ _) => (t, .err "group")
      | none => createDs dims (t ++ [(cur ++ [g], .group)]) (cur ++ [g]) (r :: rest)
termination_by comps.length
decreasing_by
  all_goals
    have := stripLead_length_le comps
    rw [_h] at this
    simp only [List.length_cons] at this ⊢
    omega

/-- `openOrCreateDataset(f, path, shape, example, compress=false)` -/
def openOrCreate (t : Tree) (path : String) (shape : Idx) : Tree × Res Path :=
  match openDataset t path with
  | .ok (p, s, _) => if uintsToInts s = shape then (t, .ok p) else (t, .err "shape")
  | .error _ => createDs (intsToUints shape) t [] (path.splitOn "/")

/-- `Unroll()` of the source view, as values -/
def unrollVals (h : Heap Int) (a : Arr) : R (List Int) := do
  let sl ← unroll h a
  sliceVals h sl

/-! ## the operations of `H5RefArrayType` -/

/-- `Write(data)` -/
def write (narrow : Bool) (h : Heap Int) (a : Arr) (d : Disk) (path : String) : Disk × Res Unit :=
  match openW d true with
  | (d1, .error c) => (d1, .err c)
  | (_, .ok t) =>
    -- arguments of openOrCreateDataset: data.Shape(), data.Get(data.NewIndex(0))
    match get h a (a.v.newIndex 0) with
    | .error e => (some t, .panic e)
    | .ok _ =>
      match openOrCreate t path a.v.dims with
      | (t1, .err c) => (some t1, .err c)
      | (t1, .panic e) => (some t1, .panic e)
      | (t1, .ok p) =>
        match unrollVals h a with
        | .error e => (some t1, .panic e)
        | .ok vals =>
          match find t1 p with
          | some (.ds s v) =>
            match h5write v s .all (prodN s) (packBuf narrow vals) with
            | .ok v' => (some (setVals t1 p v'), .ok ())
            | .error c => (some t1, .err c)
          | _ => (some t1, .err "notfound")

/-- `Create(shape, fillValue, compress=false)` (the fill value only determines the element type) -/
def create (d : Disk) (path : String) (shape : Idx) : Disk × Res Unit :=
  match openW d true with
  | (d1, .error c) => (d1, .err c)
  | (_, .ok t) =>
    match openOrCreate t path shape with
    | (t1, .err c) => (some t1, .err c)
    | (t1, .panic e) => (some t1, .panic e)
    | (t1, .ok _) => (some t1, .ok ())

/-- `WriteSlice(data, loc)`; the error of `WriteSubset` is swallowed (`return nil`) -/
def writeSlice (narrow : Bool) (h : Heap Int) (a : Arr) (d : Disk) (path : String) (loc : Idx) : Disk × Res Unit :=
  match openW d false with
  | (d1, .error c) => (d1, .err c)
  | (_, .ok t) =>
    match openDataset t path with
    | .error c => (some t, .err c)
    | .ok (p, s, v) =>
      let shp := intsToUints a.v.dims
      let ones := List.replicate loc.length 1
      match selectHyperslab s .all (intsToUints loc) ones ones shp with
      | .error c => (some t, .err c)
      | .ok fsel =>
        match unrollVals h a with
        | .error e => (some t, .panic e)
        | .ok vals =>
          match h5write v s fsel (prodN shp) (packBuf narrow vals) with
          | .ok v' => (some (setVals t p v'), .ok ())
          | .error _ => (some t, .ok ())

/-- the loop `for dim, size := range shape { if h.Slice[dim] != nil { shape[dim] = sliceSize(h.Slice[dim], size) } }` -/
def newShape : Sel → Idx → R Idx
  | _, [] => .ok []
  | [], _ :: _ => oob
  | none :: ss, d :: ds => do
    let r ← newShape ss ds
    pure (d :: r)
  | some sl :: ss, d :: ds => do
    let n ← sliceSize sl d
    let r ← newShape ss ds
    pure (n :: r)

/-- `loadSubset(ds)` -/
def loadSubset (narrow : Bool) (sel : Sel) (s : List Nat) (v : List Int) : Res (Idx × List Int) :=
  let shape := uintsToInts s
  match makeHyperslab sel shape with
  | .error e => .panic e
  | .ok slab =>
    match selectHyperslab s .all slab.offset slab.stride slab.count slab.block with
    | .error c => .err c
    | .ok fsel =>
      match newShape sel shape with
      | .error e => .panic e
      | .ok ns =>
        if product ns < 0 then .panic "alloc"
        else
          let n := (product ns).toNat
          match h5read v s fsel (prodN (intsToUints ns)) (zeroBuf narrow n) with
          | .error c => .err c
          | .ok buf => .ok (ns, unpackBuf narrow buf)

/-- `Load()` -/
def load (narrow : Bool) (d : Disk) (path : String) (sel : Option Sel) : Res (Idx × List Int) :=
  match d with
  | none => .err "nofile"
  | some t =>
    match openDataset t path with
    | .error c => .err c
    | .ok (_, s, v) =>
      let subset := match sel with
        | none => false
        | some l => l.any Option.isSome
      if subset then loadSubset narrow (sel.getD []) s v
      else
        let n := prodN s
        match h5read v s .all n (zeroBuf narrow n) with
        | .ok buf => .ok (uintsToInts s, unpackBuf narrow buf)
        | .error _ => .ok (uintsToInts s, unpackBuf narrow (zeroBuf narrow n))   -- `ds.Read(&impl)`: error ignored

/-- `Shape()` -/
def shapeOf (d : Disk) (path : String) : Res Idx :=
  match d with
  | none => .err "nofile"
  | some t =>
    match openDataset t path with
    | .error c => .err c
    | .ok (_, s, _) => .ok (uintsToInts s)

def insertSorted (x : String) : List String → List String
  | [] => [x]
  | y :: ys => if x < y then x :: y :: ys else y :: insertSorted x ys

def sortStrings (l : List String) : List String := l.foldr insertSorted []

/-- names of the children of group `p` that satisfy `keep`, in increasing name order -/
def children (t : Tree) (p : Path) (keep : Obj → Bool) : List String :=
  sortStrings (t.filterMap fun (q, o) =>
    if q.length = p.length + 1 ∧ q.take p.length = p ∧ keep o then q.getLast? else none)

def isDs : Obj → Bool
  | .ds _ _ => true
  | .group => false

/-- `GetDatasets()` / `GetGroups()` (`h.Dataset` names a group) -/
def listGroup (d : Disk) (path : String) (keep : Obj → Bool) : Res (List String) :=
  match d with
  | none => .err "nofile"
  | some t =>
    let p := splitPath path
    match find t p with
    | some .group => .ok (children t p keep)
    | _ => .err "notfound"

/-- the loop of `Exists()` over `strings.Split(h.Dataset, "/")`; `last` = is this the last component -/
def existsLoop (d : Disk) : Path → List String → Bool
  | _, [] => true
  | cur, comp :: rest =>
    if comp = "" then existsLoop d cur rest
    else match d with
      | none => false
      | some t =>
        match find t (cur ++ [comp]) with
        | some (.ds _ _) => rest.isEmpty
        | some .group => existsLoop d (cur ++ [comp]) rest
        | none => false

/-- `Exists()` -/
def pathExists (d : Disk) (path : String) : Bool := existsLoop d [] (path.splitOn "/")

/-! ### canonical dump of a file (what the harness reads back through the library, not through `io`) -/

def ltPath : Path → Path → Bool
  | [], [] => false
  | [], _ :: _ => true
  | _ :: _, [] => false
  | a :: as, b :: bs => if a < b then true else if b < a then false else ltPath as bs

def insertObj (x : Path × Obj) : Tree → Tree
  | [] => [x]
  | y :: ys => if ltPath x.1 y.1 then x :: y :: ys else y :: insertObj x ys

def sortTree (t : Tree) : Tree := t.foldr insertObj []

/-! ## vocabulary of the property statements (what "the selected region" means, independent of the code) -/

/-- "start, start+step, … while < lim" (at most `fuel` elements) -/
def walkIdx (lim step : Nat) : Nat → Nat → List Nat
  | 0, _ => []
  | fuel + 1, x => if x < lim then x :: walkIdx lim step fuel (x + step) else []

/-- the indices of a dimension of extent `e` that a `Slice` entry selects, in the property's words:
nil = all; `[start, stop, step]` = `start, start+step, … < min(stop, extent)` -/
def specIdx (e : Nat) : SelDim → List Nat
  | none => List.range e
  | some [a, b, st] => walkIdx (min b.toNat e) st.toNat e a.toNat
  | some _ => []

/-- a well-formed `Slice` entry: nil, or `[start, stop, step]` with `0 ≤ start`, `1 ≤ step` (any stop) -/
def SelDimOK : SelDim → Prop
  | none => True
  | some [a, _, st] => 0 ≤ a ∧ 1 ≤ st
  | some _ => False

/-- per dimension, the indices a `Slice` selects -/
def selIdx (sel : Sel) (s : List Nat) : List (List Nat) := List.zipWith (fun x e => specIdx e x) sel s

/-- `c` is a coordinate inside the extent `s` -/
def CoordIn : List Nat → List Nat → Prop
  | [], [] => True
  | c :: cs, e :: es => c < e ∧ CoordIn cs es
  | _, _ => False

/-- the block `loc + [0, dims)` lies inside the extent `s` -/
def BlockIn : List Nat → List Nat → List Nat → Prop
  | [], [], [] => True
  | l :: ls, d :: ds, e :: es => l + d ≤ e ∧ BlockIn ls ds es
  | _, _, _ => False

/-- `c` lies in the block `loc + [0, dims)` -/
def inBlock : List Nat → List Nat → List Nat → Bool
  | [], [], [] => true
  | c :: cs, l :: ls, d :: ds => decide (l ≤ c) && decide (c < l + d) && inBlock cs ls ds
  | _, _, _ => false

end OW.Sim.H5
