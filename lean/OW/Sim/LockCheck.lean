/-
Lock discipline of package io as a property of its call graph (core Lean only).

The graph is DATA regenerated from the Go sources on every run (`OW/Gen/IoLockGraph.lean`, written by
/verif/harness/cmd/owlockgraph): one `Fn` per function/method; `lock` = the package lock the function acquires as its
first statement with the release deferred as its second (so it is held during the whole body, callees included);
`irregular` = it touches the lock in any other way; `lib` = its calls into the HDF5 library with "can modify a file";
`calls` = the package functions it calls (positions in the graph). A function literal handed directly to a function of
the package whose parameter is call-only (`lock…(); defer unlock…(); body()` helpers, any name) is a node of its own
with the call edge from that callee — it runs under the callee's lock; a literal that may run at any other time
(stored, handed on, started with `go`) is a node marked `exported` (an entry point); see owlockgraph's header.

`lockCheck G` computes, for every function, a lower bound `ctx` of the lock strength its callers guarantee on entry
(0 none, 1 shared, 2 exclusive; exported functions: 0) by relaxation, and then VERIFIES that the bound is inductive and
sufficient (`verify`). Soundness (`OW/Props/C08.lean`, `lockCheck_sound`) only depends on `verify`.
-/
namespace OW.Sim.LockCheck

inductive Lock where
  | none
  | shared
  | exclusive
  deriving Repr, DecidableEq, Inhabited

def Lock.rank : Lock → Nat
  | .none => 0
  | .shared => 1
  | .exclusive => 2

structure Fn where
  name : String
  exported : Bool
  lock : Lock
  irregular : Bool
  lib : List (String × Bool)
  calls : List Nat
  deriving Repr, Inhabited

abbrev Graph := List Fn

/-- lock strength in force inside the body of `f` when its callers guarantee `c` -/
def eff (c : Nat) (f : Fn) : Nat := max c f.lock.rank

/-- strength a library call needs: exclusive if it can modify a file, else shared -/
def need (mutating : Bool) : Nat := if mutating then 2 else 1

/-- the conditions on function number `i` -/
def verifyAt (G : Graph) (ctx : List Nat) (i : Nat) : Bool :=
  match G[i]?, ctx[i]? with
  | some f, some c =>
    !f.irregular &&
    (!f.exported || c == 0) &&
    f.lib.all (fun l => decide (need l.2 ≤ eff c f)) &&
    f.calls.all (fun j =>
      match ctx[j]? with
      | some cj => decide (cj ≤ eff c f)
      | none => decide (G.length ≤ j))
  | _, _ => false

/-- `ctx` is an inductive and sufficient assignment of guaranteed lock strengths -/
def verify (G : Graph) (ctx : List Nat) : Bool :=
  (List.range G.length).all (verifyAt G ctx)

/-- one relaxation pass: every callee's bound is lowered to what each caller provides -/
def relaxFn (ctx : List Nat) (f : Fn) (c : Nat) : List Nat :=
  f.calls.foldl (fun acc j =>
    match acc[j]? with
    | some cj => if eff c f < cj then acc.set j (eff c f) else acc
    | none => acc) ctx

def relaxPass (G : Graph) (ctx : List Nat) : List Nat :=
  (List.range G.length).foldl (fun acc i =>
    match G[i]?, acc[i]? with
    | some f, some c => relaxFn acc f c
    | _, _ => acc) ctx

def solveLoop (G : Graph) : Nat → List Nat → List Nat
  | 0, ctx => ctx
  | fuel + 1, ctx =>
    let ctx' := relaxPass G ctx
    if ctx' == ctx then ctx else solveLoop G fuel ctx'

/-- greatest assignment below "exported = 0, others = 2" closed under the call edges -/
def solve (G : Graph) : List Nat :=
  solveLoop G (G.length + 1) (G.map fun f => if f.exported then 0 else 2)

def lockCheck (G : Graph) : Bool := verify G (solve G)

/-! ### vocabulary of the soundness theorem -/

/-- a call path `i₀ → i₁ → … → iₙ` of function numbers -/
def IsPath (G : Graph) : List Nat → Prop
  | [] => False
  | [i] => i < G.length
  | i :: j :: rest => (∃ f, G[i]? = some f ∧ j ∈ f.calls) ∧ IsPath G (j :: rest)

/-- the lock function number `i` acquires (0 none, 1 shared, 2 exclusive) -/
def rankAt (G : Graph) (i : Nat) : Nat :=
  match G[i]? with
  | some f => f.lock.rank
  | none => 0

/-- the strongest lock acquired by a function on the path (0 none, 1 shared, 2 exclusive) -/
def heldRank (G : Graph) : List Nat → Nat
  | [] => 0
  | i :: rest => max (rankAt G i) (heldRank G rest)

/-- for diagnostics: the functions that break `verifyAt` -/
def offenders (G : Graph) : List String :=
  let ctx := solve G
  (List.range G.length).filterMap fun i =>
    if verifyAt G ctx i then none else (G[i]?).map (·.name)

end OW.Sim.LockCheck
