/-
C05: a tiny transition system for the `doneChan` join pattern of the generated `Run` methods and of ow-sim's
`runGeneration` (core Lean only).

N goroutines; each works (`running`), then blocks at its single send on the UNBUFFERED channel (`ready`), and is `done`
once the parent has taken its value. The parent performs exactly N receives; `recvd` counts the completed ones. A
send and the matching receive are one joint step (rendezvous) — that is what "unbuffered" means. The parent is willing
to receive as long as `recvd < N`.
-/
namespace OW.Sim.Join

inductive Phase where
  | running   -- still computing its cell / model
  | ready     -- finished, blocked at `doneChan <- i`
  | done      -- its send was received
  deriving DecidableEq, Repr

structure St where
  ph : List Phase
  recvd : Nat

def init (n : Nat) : St := ⟨List.replicate n .running, 0⟩

inductive Trans : St → St → Prop
  /-- goroutine `i` finishes its work and arrives at its send -/
  | finish (s : St) (i : Nat) : s.ph[i]? = some .running → Trans s ⟨s.ph.set i .ready, s.recvd⟩
  /-- goroutine `i`'s send meets one of the parent's receives (only while the parent still has receives to do) -/
  | rendezvous (s : St) (i : Nat) : s.ph[i]? = some .ready → s.recvd < s.ph.length →
      Trans s ⟨s.ph.set i .done, s.recvd + 1⟩

inductive Reach (n : Nat) : St → Prop
  | init : Reach n (init n)
  | step {s t : St} : Reach n s → Trans s t → Reach n t

/-- `Path s t k`: `t` is reached from `s` in exactly `k` transitions -/
inductive Path : St → St → Nat → Prop
  | nil (s : St) : Path s s 0
  | snoc {s t u : St} {k : Nat} : Path s t k → Trans t u → Path s u (k + 1)

/-- the parent has completed all its receives (returns from `Run`) -/
def Terminal (s : St) : Prop := s.recvd = s.ph.length

def AllDone (s : St) : Prop := ∀ p, p ∈ s.ph → p = Phase.done

def sumf (f : Phase → Nat) : List Phase → Nat
  | [] => 0
  | p :: l => f p + sumf f l

def isDone : Phase → Nat
  | .done => 1
  | _ => 0

/-- remaining actions of a goroutine: finish + send, send, nothing -/
def weight : Phase → Nat
  | .running => 2
  | .ready => 1
  | .done => 0

def remaining (s : St) : Nat := sumf weight s.ph

end OW.Sim.Join
