import OW.Nd.Array
import OW.Kernels.Basic
/-
The view construction of the generated model wrappers (pre/ow-specgen/generated_struct.got), on the n-d array
model `OW/Nd`, operation for operation as the template performs them (core Lean only).

`ApplyParameters` slices the parameter array `[rows, nSets]` into per-parameter views
(`parameters.Slice([paramIdx,0],[paramSize,nSets],nil).MustReshape(newShape)`); the goroutine of cell `i` in `Run`
builds views of the shared arrays
  `states.Slice(statesPosSlice, statesSizeSlice, nil).MustReshape([numStates])`,
  `inputs.Slice(inputsPosSlice, inputsSizeSlice, nil).MustReshape(cellInputsShape)` and per input
  `cellInputs.Slice([k,0],[1,inputLen],nil).MustReshape([inputLen])`,
  `outputs.Slice(outputPosSlice, outputSizeSlice, outputStepSlice).MustReshape([inputLen])`,
scalar parameters `m.X.Get1(i % m.X.Len1())`, table parameters `m.X.Slice([0, i % nSets],[ownLen],nil)` (a rank-1
`dims` on a rank-2 array), calls the kernel on these views and writes the states back (`initialStates.Set1(k, v)`).

Go `int` is `Int`; Go `%` truncates (`Int.tmod`) and panics on a zero divisor; `x[k] = v` on an index vector panics
when `k` is out of range. `MustReshape` may allocate (non-contiguous views are copied), so every view constructor
returns the heap as well. The theorems (`OW/Props/C04Nd.lean`) show that on root arrays it never does.

That this view algebra yields the list-level semantics `OW/Sim/Wrapper.lean` is the subject of `OW/Props/C04Nd.lean`.
-/
namespace OW.Sim.WrapperNd
open OW OW.Nd

section
variable {α : Type}

/-- Go `l[k] = v` on an index vector -/
def setAt (l : Idx) (k : Nat) (v : Int) : R Idx := if k < l.length then .ok (l.set k v) else oob

/-- Go `a % b` on `int` -/
def goMod (a b : Int) : R Int := if b = 0 then .error "int-div-zero" else .ok (a.tmod b)

/-- Go `l[len(l)-1]` -/
def lastOf (l : Idx) : R Int :=
  match l.getLast? with
  | some x => .ok x
  | none => oob

/-! ### the preamble of `Run` (executed once, before the goroutines are started) -/

/-- the numbers and the SHARED, read-only index vectors computed at the top of `Run` -/
structure RunDims where
  numCells : Int             -- states.Len(sim.DIMS_CELL)
  numStates : Int            -- states.Len(sim.DIMS_STATE)
  numInputSequences : Int    -- inputs.Len(sim.DIMI_CELL)
  inputLen : Int             -- inputDims[sim.DIMI_TIMESTEP]
  cellInputsShape : Idx      -- inputDims[1:]
  outputStepSlice : Idx      -- outputs.NewIndex(1)
  outputSizeSlice : Idx      -- outputs.NewIndex(1); [DIMO_TIMESTEP] = inputLen
  statesSizeSlice : Idx      -- states.NewIndex(1);  [DIMS_STATE] = numStates
  inputsSizeSlice : Idx      -- inputs.NewIndex(1);  [DIMI_INPUT] = inputDims[DIMI_INPUT]; [DIMI_TIMESTEP] = inputLen
  deriving Repr, DecidableEq

def runDims (inputs states outputs : Arr) : R RunDims := do
  let inputDims := inputs.v.dims
  let numCells ← states.v.len 0
  let numStates ← states.v.len 1
  let numInputSequences ← inputs.v.len 0
  let inputLen ← inputs.v.len 2
  let cellInputsShape ← (if inputDims.length < 1 then oob else pure (inputDims.drop 1) : R Idx)
  let outputStepSlice := outputs.v.newIndex 1
  let outputSizeSlice ← setAt (outputs.v.newIndex 1) 2 inputLen
  let statesSizeSlice ← setAt (states.v.newIndex 1) 1 numStates
  let nI ← inputs.v.len 1
  let s1 ← setAt (inputs.v.newIndex 1) 1 nI
  let inputsSizeSlice ← setAt s1 2 inputLen
  pure { numCells, numStates, numInputSequences, inputLen, cellInputsShape, outputStepSlice, outputSizeSlice,
         statesSizeSlice, inputsSizeSlice }

/-! ### the views of cell `i`, with the index vectors written out -/

/-- `initialStates := states.Slice([i,0], [1,numStates], nil).MustReshape([]int{numStates})` -/
def stateView (h : Heap α) (states : Arr) (i numStates : Int) : R (Heap α × Arr) := do
  let s ← slice states [i, 0] [1, numStates] none
  mustReshape h s [numStates]

/-- `cellInputs := inputs.Slice([i % numInputSequences,0,0], [1,nI,inputLen], nil).MustReshape(inputDims[1:])` -/
def cellInputs (h : Heap α) (inputs : Arr) (i numInputSequences nI inputLen : Int) : R (Heap α × Arr) := do
  let c ← goMod i numInputSequences
  let s ← slice inputs [c, 0, 0] [1, nI, inputLen] none
  mustReshape h s [nI, inputLen]

/-- `cellInputs.Slice([k,0], [1,inputLen], nil).MustReshape([]int{inputLen})` -/
def inputOf (h : Heap α) (ci : Arr) (k inputLen : Int) : R (Heap α × Arr) := do
  let s ← slice ci [k, 0] [1, inputLen] none
  mustReshape h s [inputLen]

/-- the `k`-th input series of cell `i`: the two-level slice/reshape chain -/
def inputView (h : Heap α) (inputs : Arr) (i k numInputSequences nI inputLen : Int) : R (Heap α × Arr) := do
  let (h1, ci) ← cellInputs h inputs i numInputSequences nI inputLen
  inputOf h1 ci k inputLen

/-- `outputs.Slice([i,o,0], [1,1,inputLen], [1,1,1]).MustReshape([]int{inputLen})` -/
def outputView (h : Heap α) (outputs : Arr) (i o inputLen : Int) : R (Heap α × Arr) := do
  let s ← slice outputs [i, o, 0] [1, 1, inputLen] (some [1, 1, 1])
  mustReshape h s [inputLen]

/-- `ApplyParameters`: `parameters.Slice([paramIdx,0], [paramSize,nSets], nil).MustReshape(newShape)` -/
def paramView (h : Heap α) (parameters : Arr) (paramIdx paramSize : Int) (newShape : Idx) : R (Heap α × Arr) := do
  let nSets ← parameters.v.len 1
  let s ← slice parameters [paramIdx, 0] [paramSize, nSets] none
  mustReshape h s newShape

/-- a scalar parameter stored in row `row`: the `ApplyParameters` view `[nSets]`, then `m.X.Get1(i % m.X.Len1())` -/
def scalarParam (h : Heap α) (parameters : Arr) (row i : Int) : R α := do
  let nSets ← parameters.v.len 1
  let (h1, m) ← paramView h parameters row 1 [nSets]
  let n ← m.v.len 0
  let c ← goMod i n
  get1 h1 m c

/-- a table parameter stored in rows `row … row+maxLen-1`: the `ApplyParameters` view `[maxLen, nSets]`
(`paramSize = 1 * maxLen`), then in `Run`
`xNSets := shape[len(shape)-1]; m.X.Slice([]int{0, i % xNSets}, []int{ownLen}, nil)` — a rank-1 `dims` on a rank-2 array -/
def tableParam (h : Heap α) (parameters : Arr) (row maxLen ownLen i : Int) : R (Heap α × Arr) := do
  let nSets ← parameters.v.len 1
  let (h1, m) ← paramView h parameters row (1 * maxLen) [maxLen, nSets]
  let ns ← lastOf m.v.dims
  let c ← goMod i ns
  let t ← slice m [0, c] [ownLen] none
  pure (h1, t)

/-! ### the views of cell `i` as the template builds them: from the shared vectors of the preamble and the
per-goroutine position vectors `…PosSlice := X.NewIndex(0); …PosSlice[CELL] = i` -/

def tplStateView (h : Heap α) (states : Arr) (rd : RunDims) (i : Int) : R (Heap α × Arr) := do
  let statesPosSlice ← setAt (states.v.newIndex 0) 0 i
  let s ← slice states statesPosSlice rd.statesSizeSlice none
  mustReshape h s [rd.numStates]

def tplInputView (h : Heap α) (inputs : Arr) (rd : RunDims) (i k : Int) : R (Heap α × Arr) := do
  let c ← goMod i rd.numInputSequences
  let inputsPosSlice ← setAt (inputs.v.newIndex 0) 0 c
  let s ← slice inputs inputsPosSlice rd.inputsSizeSlice none
  let (h1, ci) ← mustReshape h s rd.cellInputsShape
  let s2 ← slice ci [k, 0] [1, rd.inputLen] none
  mustReshape h1 s2 [rd.inputLen]

def tplOutputView (h : Heap α) (outputs : Arr) (rd : RunDims) (i o : Int) : R (Heap α × Arr) := do
  let p0 ← setAt (outputs.v.newIndex 0) 0 i
  let outputPosSlice ← setAt p0 1 o
  let s ← slice outputs outputPosSlice rd.outputSizeSlice (some rd.outputStepSlice)
  mustReshape h s [rd.inputLen]

/-! ### reading a view as a list, writing a list through a view -/

/-- the elements of a view in row-major order (`Unroll()` read as a value) -/
def unrollVals (h : Heap α) (a : Arr) : R (List α) := do
  let sl ← unroll h a
  sliceVals h sl

/-- `[a.Get1(from), a.Get1(from+1), …]` (`n` elements): how a kernel reads a series / `extract…States` reads the states -/
def readLoop (h : Heap α) (a : Arr) : Nat → Int → R (List α)
  | 0, _ => .ok []
  | n + 1, t => do
    let x ← get1 h a t
    let r ← readLoop h a n (t + 1)
    pure (x :: r)

/-- read a 1-D view completely with `Get1` -/
def readView (h : Heap α) (a : Arr) : R (List α) := do
  let n ← a.v.len 0
  readLoop h a n.toNat 0

/-- `a.Set1(0, vals[0]); a.Set1(1, vals[1]); …` — the state write-back of the template, and a kernel's element by
element writes of an output series -/
def writeView (h : Heap α) (a : Arr) (vals : List α) : R (Heap α) := apply1 h a 0 1 vals

/-- the elements `t.Get1(0) … t.Get1(ownLen-1)` of a table-parameter view -/
def readTable (h : Heap α) (t : Arr) (ownLen : Nat) : R (List α) := readLoop h t ownLen 0

/-! ### one cell of `Run`, with an arbitrary kernel function on lists -/

/-- monadic map threading nothing (plain `mapM` in `Except`, spelled out to keep unfolding simple) -/
def mapR {β γ : Type} (f : β → R γ) : List β → R (List γ)
  | [] => .ok []
  | x :: xs => do
    let y ← f x
    let ys ← mapR f xs
    pure (y :: ys)

/-- write output series number `o, o+1, …` through their output views -/
def writeOutputs (h : Heap α) (outputs : Arr) (i inputLen : Int) : Int → List (List α) → R (Heap α)
  | _, [] => .ok h
  | o, ser :: rest => do
    let (h1, ov) ← outputView h outputs i o inputLen
    let h2 ← writeView h1 ov ser
    writeOutputs h2 outputs i inputLen (o + 1) rest

/-- what the goroutine of cell `i` does (models with scalar parameters only, stored in rows `0 … nParams-1`;
`GenerateExtractStates` and `PassOutputsAsParams` wrappers): decode the parameters, build the state view and read the
states, build the input views and read the series, run the kernel, write its output series through the output views
and the new states through the state view. The kernel is a function on lists: its reads all come first — the real
kernels interleave reads of inputs with writes of outputs, which are in different storages. -/
def cellStepNd (kernel : List α → List (List α) → List α → KRes α) (nParams nI : Nat)
    (h : Heap α) (parameters inputs states outputs : Arr) (rd : RunDims) (i : Int) : R (Heap α) := do
  let p ← mapR (fun (j : Nat) => scalarParam h parameters (j : Int) i) (List.range nParams)
  let (h1, sv) ← stateView h states i rd.numStates
  let st ← readView h1 sv
  let ins ← mapR (fun (k : Nat) => do
      let (h2, v) ← inputView h1 inputs i (k : Int) rd.numInputSequences (nI : Int) rd.inputLen
      readView h2 v) (List.range nI)
  let r ← kernel p ins st
  let h3 ← writeOutputs h1 outputs i rd.inputLen 0 r.outputs
  writeView h3 sv r.states

/-- the goroutines of cells `i, i+1, …` (`n` of them) executed one after the other (C05 is about why the order does
not matter) -/
def runCellsNd (kernel : List α → List (List α) → List α → KRes α) (nParams nI : Nat)
    (parameters inputs states outputs : Arr) (rd : RunDims) : Nat → Int → Heap α → R (Heap α)
  | 0, _, h => .ok h
  | n + 1, i, h => do
    let h1 ← cellStepNd kernel nParams nI h parameters inputs states outputs rd i
    runCellsNd kernel nParams nI parameters inputs states outputs rd n (i + 1) h1

/-- `Run(inputs, states, outputs)`: the preamble, then one goroutine per cell `0 … numCells-1` -/
def runNd (kernel : List α → List (List α) → List α → KRes α) (nParams nI : Nat)
    (h : Heap α) (parameters inputs states outputs : Arr) : R (Heap α) := do
  let rd ← runDims inputs states outputs
  runCellsNd kernel nParams nI parameters inputs states outputs rd rd.numCells.toNat 0 h

end
end OW.Sim.WrapperNd
