/-
C05: a tiny transition system for the `sync.WaitGroup` join pattern (core Lean only) — the form a generated `Run` takes
when its done channel is replaced by a WaitGroup:

    var wg sync.WaitGroup
    wg.Add(n)                                   // n = the launch count, before the first `go`
    for j := 0; j < n; j++ { go func(i int) { …work…; wg.Done() }(j) }
    wg.Wait()

N goroutines; each works (`true` in `running`) and then calls `Done()` once, which decrements the counter and never
blocks. The parent's `Wait()` returns only when the counter is zero (that is the specification of `sync.WaitGroup`,
TRUSTED). `Add(1)` next to each `go` statement gives the same system: every `Add` happens in the parent before the `go`
statement it belongs to, hence before that goroutine's `Done()`, and all of them before `Wait()`.
-/
namespace OW.Sim.JoinWG

structure St where
  running : List Bool   -- goroutine i has not yet called Done()
  counter : Nat         -- the WaitGroup counter
  waited : Bool         -- the parent's Wait() has returned

def init (n : Nat) : St := ⟨List.replicate n true, n, false⟩

inductive Trans : St → St → Prop
  /-- goroutine `i` finishes its work and calls `Done()` (never blocks) -/
  | done (s : St) (i : Nat) : s.running[i]? = some true → Trans s ⟨s.running.set i false, s.counter - 1, s.waited⟩
  /-- the parent's `Wait()` returns: only when the counter is zero -/
  | wait (s : St) : s.counter = 0 → s.waited = false → Trans s ⟨s.running, s.counter, true⟩

inductive Reach (n : Nat) : St → Prop
  | init : Reach n (init n)
  | step {s t : St} : Reach n s → Trans s t → Reach n t

/-- `Path s t k`: `t` is reached from `s` in exactly `k` transitions -/
inductive Path : St → St → Nat → Prop
  | nil (s : St) : Path s s 0
  | snoc {s t u : St} {k : Nat} : Path s t k → Trans t u → Path s u (k + 1)

def AllDone (s : St) : Prop := ∀ b, b ∈ s.running → b = false

/-- number of goroutines still running -/
def count : List Bool → Nat
  | [] => 0
  | b :: l => (if b then 1 else 0) + count l

/-- remaining actions: one `Done()` per running goroutine, and the parent's `Wait()` -/
def remaining (s : St) : Nat := count s.running + (if s.waited then 0 else 1)

end OW.Sim.JoinWG
