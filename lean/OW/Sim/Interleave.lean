/-
A small generic model of concurrent tasks over a shared memory (core Lean only; used by C05).

* memory `Mem Addr Val := Addr → Val` (`Addr`, `Val` arbitrary);
* an atomic `Step` is a function `Mem → Mem` TOGETHER WITH its declared footprint: finite lists `reads`, `writes`
  of addresses, and the two semantic conditions that make the declaration honest:
    `frame`  – it changes only addresses in `writes`;
    `loc`    – what it leaves at the addresses in `writes` depends only on the values at `reads ++ writes`;
* a task is a list of steps (program order); `Interleaving tasks sched` says that the schedule `sched`
  (a list of steps tagged with the index of the task they belong to) is a merge of the tasks' step lists that
  preserves each task's order and runs every task to completion;
* `runSched` executes a schedule, `seqRun` runs the tasks one after the other in index order.

What is NOT modelled (trusted, Go memory model): that a data-race-free Go program behaves as SOME interleaving of
atomic steps of its goroutines (sequential consistency for DRF programs), and that the footprints declared here are
the footprints of the real code (tie A: regenerated facts; tie B: runs under several GOMAXPROCS and `-race`).
-/
namespace OW.Sim.Interleave

abbrev Mem (Addr Val : Type) := Addr → Val

/-- pointwise update -/
def upd {Addr Val : Type} [DecidableEq Addr] (m : Mem Addr Val) (a : Addr) (v : Val) : Mem Addr Val :=
  fun b => if b = a then v else m b

theorem upd_same {Addr Val : Type} [DecidableEq Addr] (m : Mem Addr Val) (a : Addr) (v : Val) : upd m a v a = v := by
  simp [upd]

theorem upd_other {Addr Val : Type} [DecidableEq Addr] (m : Mem Addr Val) (a b : Addr) (v : Val) (h : b ≠ a) :
    upd m a v b = m b := by
  simp [upd, h]

/-- an atomic step with a declared footprint -/
structure Step (Addr Val : Type) where
  run : Mem Addr Val → Mem Addr Val
  reads : List Addr
  writes : List Addr
  /-- changes only addresses in `writes` -/
  frame : ∀ (m : Mem Addr Val) (a : Addr), a ∉ writes → run m a = m a
  /-- the effect on `writes` depends only on the values at `reads ++ writes` -/
  loc : ∀ (m m' : Mem Addr Val), (∀ a, a ∈ reads ++ writes → m a = m' a) → ∀ a, a ∈ writes → run m a = run m' a

/-- the step "put `f m a` at every address `a ∈ ws`", where `f` looks only at `rs ++ ws` -/
def Step.ofFun {Addr Val : Type} [DecidableEq Addr] (rs ws : List Addr) (f : Mem Addr Val → Addr → Val)
    (hf : ∀ m m' : Mem Addr Val, (∀ a, a ∈ rs ++ ws → m a = m' a) → ∀ a, a ∈ ws → f m a = f m' a) : Step Addr Val where
  run m := fun a => if a ∈ ws then f m a else m a
  reads := rs
  writes := ws
  frame := by intro m a ha; simp [ha]
  loc := by intro m m' h a ha; simp only [ha, if_true]; exact hf m m' h a ha

variable {Addr Val : Type}

/-- everything the step may touch -/
def Step.foot (s : Step Addr Val) : List Addr := s.reads ++ s.writes

/-- `s` writes nothing that `t` reads or writes -/
def WritesAvoid (s t : Step Addr Val) : Prop := ∀ a, a ∈ s.writes → a ∉ t.foot

/-- footprints do not conflict: neither writes what the other reads or writes -/
def NoConflict (s t : Step Addr Val) : Prop := WritesAvoid s t ∧ WritesAvoid t s

theorem NoConflict.symm {s t : Step Addr Val} (h : NoConflict s t) : NoConflict t s := ⟨h.2, h.1⟩

abbrev Task (Addr Val : Type) := List (Step Addr Val)

/-- run a list of steps in order -/
def runList (l : List (Step Addr Val)) (m : Mem Addr Val) : Mem Addr Val := l.foldl (fun m s => s.run m) m

@[simp] theorem runList_nil (m : Mem Addr Val) : runList ([] : List (Step Addr Val)) m = m := rfl
@[simp] theorem runList_cons (s : Step Addr Val) (l : List (Step Addr Val)) (m : Mem Addr Val) :
    runList (s :: l) m = runList l (s.run m) := rfl
theorem runList_append (l₁ l₂ : List (Step Addr Val)) (m : Mem Addr Val) :
    runList (l₁ ++ l₂) m = runList l₂ (runList l₁ m) := by
  simp [runList, List.foldl_append]

/-- a schedule: steps tagged with the index of their task -/
abbrev Sched (Addr Val : Type) := List (Nat × Step Addr Val)

def runSched (sched : Sched Addr Val) (m : Mem Addr Val) : Mem Addr Val := runList (sched.map (·.2)) m

@[simp] theorem runSched_nil (m : Mem Addr Val) : runSched ([] : Sched Addr Val) m = m := rfl
@[simp] theorem runSched_cons (x : Nat × Step Addr Val) (l : Sched Addr Val) (m : Mem Addr Val) :
    runSched (x :: l) m = runSched l (x.2.run m) := rfl
theorem runSched_append (l₁ l₂ : Sched Addr Val) (m : Mem Addr Val) :
    runSched (l₁ ++ l₂) m = runSched l₂ (runSched l₁ m) := by
  simp [runSched, runList_append]

/-- the tasks one after the other, in index order -/
def seqRun (tasks : List (Task Addr Val)) (m : Mem Addr Val) : Mem Addr Val := runList tasks.flatten m

/-- the steps of task `i` that occur in a schedule, in schedule order -/
def proj (i : Nat) (sched : Sched Addr Val) : List (Step Addr Val) := (sched.filter (fun x => x.1 == i)).map (·.2)

/-- `sched` is a complete merge of the tasks' step lists preserving each task's own order: either every task is
finished and the schedule is empty, or the next scheduled step is the head of some task `i` and the rest is an
interleaving of the remaining work. -/
inductive Interleaving : List (Task Addr Val) → Sched Addr Val → Prop
  | done {tasks : List (Task Addr Val)} : (∀ t, t ∈ tasks → t = []) → Interleaving tasks []
  | step {tasks : List (Task Addr Val)} {sched : Sched Addr Val} (i : Nat) (s : Step Addr Val) (rest : Task Addr Val) :
      tasks[i]? = some (s :: rest) → Interleaving (tasks.set i rest) sched → Interleaving tasks ((i, s) :: sched)

/-- the sequential schedule: all of task 0, then all of task 1, … (tags start at `k`) -/
def seqSched : Nat → List (Task Addr Val) → Sched Addr Val
  | _, [] => []
  | k, t :: ts => t.map (fun s => (k, s)) ++ seqSched (k + 1) ts

end OW.Sim.Interleave
