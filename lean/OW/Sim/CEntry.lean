import OW.Sim.Wrapper
/-
List-level model of the exported C entry point `RunSingleModel` (libopenwater/single.go, 62 lines).

The caller hands over FOUR flat buffers of doubles (row-major) with their extents:
  inputs  [nInputSets, nInputs, nTimesteps]
  params  [nParameters, nParameterSets]
  states  [nCells, nStates]                       (pointer may be NULL)
  outputs [nOutputCells, nOutputs, nOutputTimesteps]
and the flag `initStates`. The Go code
  1. looks the model up: `sim.Catalog[gName]()` — a name that is not in the map gives the nil func value, calling it is
     Go's nil-pointer panic (class `nil` of `panicClass`), BEFORE any buffer is wrapped or touched;
  2. wraps inputs / params / outputs as C-backed arrays of those shapes (`cdata.NewFloat64CArray`: no copy, the array IS the
     caller's memory, element `[i,j,k]` at `i·d1·d2 + j·d2 + k`);
  3. `FindDimensions` / `InitialiseDimensions` / `ApplyParameters` (= `Sim.layout` + `Sim.cellParams`);
  4. `initStates`: `sArray = model.InitialiseStates(nCells)` (a fresh Go-backed array, `Sim.initStates`);
     otherwise `sArray` = the caller's states buffer wrapped as `[nCells, nStates]`;
  5. `model.Run(iArray, sArray, oArray)` (= `Sim.runCells`; 2–5 together are `Sim.run`, THE SAME function the Go API is);
  6. `if initStates && states != nil`: wrap the caller's states buffer as `[nCells, nStates]` and `CopyFrom(sArray)`, which for a
     C-backed destination is the element-by-element `ApplySlice` of the SOURCE's shape at `[0,0]`: row `i` of the library's
     states is stored, unchecked, at positions `i·nStates …` of the buffer — whatever its width.

What this model is about is the GLUE: buffer ↔ array (`unflat*` / `flat*`), which array `Run` gets for the states, what is
written back and where. The kernel run itself is shared with the Go-API model (`Sim.run`) by construction.
C ints are modelled as `Nat` (a negative extent is outside the model). A Go panic anywhere = the whole process (the C
caller included) dies: `.error class`, no buffers to observe afterwards.
-/
namespace OW.Sim.CEntry
open OW OW.Sim

variable {α : Type} [Num α]

/-- the ten integer arguments of `RunSingleModel` -/
structure Extents where
  nInputSets : Nat
  nInputs : Nat
  nTimesteps : Nat
  nParameters : Nat
  nParameterSets : Nat
  nCells : Nat
  nStates : Nat
  nOutputCells : Nat
  nOutputs : Nat
  nOutputTimesteps : Nat

/-- the caller's memory: the four buffers the pointers address. `states = none` is the NULL pointer. -/
structure Bufs (α : Type) where
  inputs : List α
  params : List α
  states : Option (List α)
  outputs : List α

/-- what the caller can observe after the call returned: the four buffers, and the ghost flag `oob` = some store of the
copy-back fell OUTSIDE the states buffer (unchecked C indexing: not a panic, the caller's neighbouring memory is overwritten) -/
structure Result (α : Type) where
  bufs : Bufs α
  oob : Bool

/-- `NewFloat64CArray(ptr, [d0, d1])` read as rows: row `i` = elements `i·d1 … i·d1 + d1 − 1` -/
def unflat2 (d0 d1 : Nat) (buf : List α) : List (List α) := chunks d1 d0 buf

/-- `NewFloat64CArray(ptr, [d0, d1, d2])` read as blocks of rows -/
def unflat3 (d0 d1 d2 : Nat) (buf : List α) : List (List (List α)) := (chunks (d1 * d2) d0 buf).map (chunks d2 d1)

/-- row-major image of a 2-d array -/
def flat2 (rows : List (List α)) : List α := rows.flatten

/-- row-major image of a 3-d array -/
def flat3 (x : List (List (List α))) : List α := (x.map List.flatten).flatten

/-- the buffer after the in-place writes of `Run` through a C-backed root: its first elements are the row-major image `xs`
of the array's new contents, elements beyond the array's extent are never addressed -/
def writeBack (buf xs : List α) : List α := xs ++ buf.drop xs.length

/-- unchecked store of the run `xs` at positions `pos, pos+1, …` of a C buffer: the part that falls inside is stored; the flag
says that some element fell outside (it went to whatever lies behind the caller's buffer) -/
def writeC (buf : List α) (pos : Nat) (xs : List α) : List α × Bool :=
  (buf.take pos ++ xs.take (buf.length - pos) ++ buf.drop (pos + xs.length), decide (buf.length < pos + xs.length))

/-- `sOrig.CopyFrom(sArray)` with `sOrig` = the caller's buffer wrapped as `[nCells, nStates]`: the rows of the library's
states, in order, row `i` stored from position `i·nStates` (C `ApplySlice`: `Slice([0,0], shape of the SOURCE, nil)` then
element by element in row-major order — no check of the source's shape against `[nCells, nStates]`) -/
def copyBack (nStates : Nat) : Nat → List (List α) → List α → Bool → List α × Bool
  | _, [], buf, f => (buf, f)
  | i, r :: rest, buf, f =>
    let w := writeC buf (i * nStates) r
    copyBack nStates (i + 1) rest w.1 (f || w.2)

/-- the arguments the entry point passes to `FindDimensions … Run`, as a Go-API call (`Sim.RunIn`): the three wrapped
buffers, and for the states `none` (= `InitialiseStates(nCells)`) when `initStates`, else the wrapped states buffer
(a NULL pointer is read as the empty buffer; it is only accepted when `nCells · nStates = 0`, see `cEntry`) -/
def goArgs (e : Extents) (initStates : Bool) (b : Bufs α) : RunIn α :=
  { params := unflat2 e.nParameters e.nParameterSets b.params
    inputs := unflat3 e.nInputSets e.nInputs e.nTimesteps b.inputs
    states := if initStates then none else some (unflat2 e.nCells e.nStates (b.states.getD []))
    nCells := e.nCells
    outputs := unflat3 e.nOutputCells e.nOutputs e.nOutputTimesteps b.outputs }

/-- `RunSingleModel`. `cat` = `sim.Catalog` (name → the kernel and its parameter layout). -/
def cEntry (cat : String → Option (KModel α × ParamSpec)) (name : String) (e : Extents) (initStates : Bool) (b : Bufs α) :
    Except String (Result α) :=
  match cat name with
  | none => .error "nil"                    -- `sim.Catalog[gName]()`: call of a nil func value, before anything else
  | some (km, spec) =>
    -- states == NULL, not initStates, and a non-empty states array: `Run` dereferences the nil `*[1<<30]C.double`
    if initStates = false ∧ b.states = none ∧ e.nCells * e.nStates ≠ 0 then .error "nil" else
    match run km spec (goArgs e initStates b) with
    | .error c => .error c                  -- a panic in `Run` (or a goroutine of it) kills the process
    | .ok r =>
      let outputs := writeBack b.outputs (flat3 r.outputs)
      if initStates then
        -- `Run` worked on the library's own array; `if initStates && states != nil { sOrig.CopyFrom(sArray) }`
        match b.states with
        | none => .ok { bufs := { b with outputs := outputs }, oob := false }
        | some sb =>
          let c := copyBack e.nStates 0 r.states sb false
          .ok { bufs := { b with outputs := outputs, states := some c.1 }, oob := c.2 }
      else
        -- `Run` worked in place on the caller's states buffer
        .ok { bufs := { b with outputs := outputs, states := b.states.map fun sb => writeBack sb (flat2 r.states) },
              oob := false }

end OW.Sim.CEntry
