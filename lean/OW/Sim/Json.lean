import OW.Nd.Array
/-
Model of the JSON single-model runner (core Lean only):
  /repo/io/json/json.go      `JsonSafeValue`, `JsonSafeArray`                    (on the n-d array model OW/Nd)
  /repo/sim/single.go        `singleModel.Initialise`, `RunSingleModelJSON`, `encodeResults`
  /repo/cmd/ow-single        `RunSingleModelJSON(os.Stdin, os.Stdout, true)`

The model KERNEL is abstract (`Kernel α`): what `ApplyParameters`+`InitialiseStates(1)` and a one-cell `Run` do for given
parameter column and input block is a table the harness fills by a direct run through the Go API; this file is
about the glue around it. `encoding/json` is trusted: a request is either the decoded `ParsedRequest` or the
decoder's error text.

single.go is modelled AS REPAIRED by /verif/fixes/single_json_validate.diff (no inputs → error "No inputs provided";
a later input of another length → error; split states only when the state row is as wide as the description).
-/
namespace OW.Sim.Json
open OW.Nd

/-- what the glue needs to know about a float64 -/
class JNum (α : Type) where
  zero : α
  /-- `math.IsNaN` -/
  isNaN : α → Bool
  /-- `math.IsInf(x, +1)` -/
  isPosInf : α → Bool
  /-- `math.IsInf(x, -1)` -/
  isNegInf : α → Bool
  /-- `fmt.Sprintf("%f", x)` -/
  fmt6 : α → String

/-- a JSON value as `encoding/json` writes it for the types used by single.go; an object is the list of its keys and
the list of its values (a Go map: keys unique) -/
inductive JVal (α : Type) where
  | null : JVal α
  | num (x : α) : JVal α
  | str (s : String) : JVal α
  | arr (xs : List (JVal α)) : JVal α
  | obj (ks : List String) (vs : List (JVal α)) : JVal α
  deriving Inhabited

section
variable {α : Type} [JNum α]

/-- `math.IsInf(x, 0)` -/
def isInf0 (x : α) : Bool := JNum.isPosInf x || JNum.isNegInf x

/-- `fmt.Sprint(val)` for a non-finite float64: `NaN`, `+Inf`, `-Inf` -/
def sprintNonFinite (x : α) : String :=
  if JNum.isNaN x then "NaN" else if JNum.isPosInf x then "+Inf" else "-Inf"

/-- `JsonSafeValue(val)` -/
def jsonSafeValue (x : α) : JVal α :=
  if JNum.isNaN x then .str (sprintNonFinite x)
  else if isInf0 x then .str (sprintNonFinite x)
  else .num x

/-- `for i := shiftDim+1; i < ndims; i++ { to[i] = shape[i] }` on `to = NewIndex(0)` (same length as `shape`) -/
def fillTo (shape : Idx) (shiftDim : Nat) : Idx :=
  shape.mapIdx fun i d => if shiftDim < i then d else 0

/-- `Len(ax)` with a Go `int` axis: a negative axis panics like one that is too large -/
def lenI (v : View) (ax : Int) : R Int := if ax < 0 then oob else v.len ax.toNat

/-- `JsonSafeArray(vals, shiftDim)`; `fuel` bounds the recursion depth (callers pass the number of dimensions:
every recursive call is one dimension further right, and `Len(shiftDim)` panics beyond the last one).
The view handed to the recursive call is the one the Go code builds: `Slice(from, to, step)` with `to` in the place
of `dims` (so its extents left of and at `shiftDim` are meaningless; only the extents right of it are read). -/
def jsonSafeArrayF (h : Heap α) : Nat → Arr → Int → R (List (JVal α))
  | 0, _, _ => oob
  | fuel + 1, a, shiftDim => do
    let shape := a.v.dims
    let length ← lenI a.v shiftDim
    let ndims : Nat := a.v.ndims
    let sd := shiftDim.toNat
    let from0 := a.v.newIndex 0
    let to0 := fillTo shape sd
    let step := a.v.newIndex 1
    if length < 0 then .error "alloc"       -- make([]interface{}, length)
    else
      (List.range length.toNat).mapM fun (i : Nat) => do
        let fromI := from0.set sd i
        if shiftDim = (ndims : Int) - 1 then
          let x ← get h a fromI
          pure (jsonSafeValue x)
        else
          let toI := to0.set sd i
          let sub ← slice a fromI toI (some step)
          let r ← jsonSafeArrayF h fuel sub (shiftDim + 1)
          pure (.arr r)

/-- `JsonSafeArray(vals, shiftDim)` -/
def jsonSafeArray (h : Heap α) (a : Arr) (shiftDim : Int) : R (List (JVal α)) :=
  jsonSafeArrayF h a.v.ndims a shiftDim

/-! ### the request, the catalogue entry, the abstract kernel -/

structure ParamDesc (α : Type) where
  name : String
  default : α

/-- `model.Description()` as far as single.go reads it -/
structure ModelDesc (α : Type) where
  params : List (ParamDesc α)
  inputs : List String
  states : List String
  outputs : List String

/-- `modelInput`; `values = none` is a nil slice (`"Values"` absent or `null`) -/
structure ReqInput (α : Type) where
  name : String
  values : Option (List α)

/-- `modelValue` -/
structure ReqValue (α : Type) where
  name : String
  value : α

/-- `singleModel` after a successful `Decode` -/
structure ParsedRequest (α : Type) where
  name : String
  inputs : List (ReqInput α)
  states : List (ReqValue α)
  parameters : List (ReqValue α)

/-- result of the one-cell `Run` on the states `InitialiseStates(1)` returned -/
inductive RunRes (α : Type) where
  /-- `outputs[o][t]`, final state row -/
  | ok (outputs : List (List α)) (states : List α)
  /-- panic in the calling goroutine (recoverable: deferred calls run) -/
  | panic (cls : String)
  /-- panic in a goroutine started by `Run`: the process dies at once, no deferred call runs -/
  | died (cls : String)

/-- the catalogued model behind the glue: a table filled by direct calls of the Go API -/
structure Kernel (α : Type) where
  /-- `ApplyParameters(uniformParameters(params, 1)); InitialiseStates(1)` : ok or panic class -/
  init : List α → Except String Unit
  /-- `Run(inputs[1×nIn×T], states, outputs[1×nOut×T])` for parameter column `params` -/
  run : List α → List (List α) → RunRes α

/-- how `RunSingleModelJSON` ends besides what it wrote -/
inductive Ending where
  | returned
  | panicked (cls : String)   -- a panic propagates to the caller (`ow-single`: exit status 2 after the output)
  | died (cls : String)       -- the process is killed by a panic in another goroutine
  deriving DecidableEq, Repr

structure Response (α : Type) where
  /-- the JSON documents written to `w`, in order -/
  written : List (JVal α)
  ending : Ending

/-! ### singleModel.Initialise -/

/-- `modelInputs.Find(name)`: values of the first entry with that name (possibly nil), else nil -/
def findInput : List (ReqInput α) → String → Option (List α)
  | [], _ => none
  | v :: vs, name => if v.name = name then v.values else findInput vs name

/-- `modelValues.Find(name, default)`: value and message (`""` when found) -/
def findValue : List (ReqValue α) → String → α → α × String
  | [], name, d => (d, name ++ " not found, using default=" ++ JNum.fmt6 d)
  | v :: vs, name, d => if v.name = name then (v.value, "") else findValue vs name d

/-- the parameter loop: values and appended warnings -/
def paramLoop (req : List (ReqValue α)) : List (ParamDesc α) → List α × List String
  | [] => ([], [])
  | p :: ps =>
    let (x, msg) := findValue req p.name p.default
    let (xs, ws) := paramLoop req ps
    (x :: xs, if msg ≠ "" then msg :: ws else ws)

/-- state of the input loop: `inputs` (nil, or `nIn` rows of `T` values = the 1×nIn×T array) and warnings -/
structure InLoop (α : Type) where
  inputs : Option (List (List α))
  warnings : List String

/-- one row of the 3-d array overwritten from position 0: `inputs.Apply([]int{0,i,0}, 2, 1, thisInput)` for
`len(thisInput) = T` -/
def setRow (rows : List (List α)) (i : Nat) (vals : List α) : List (List α) := rows.set i vals

/-- the input loop of the REPAIRED `Initialise`; `.error msg` = the returned error -/
def inputLoop (req : List (ReqInput α)) (nIn : Nat) : List String → Nat → InLoop α → Except String (InLoop α)
  | [], _, s => .ok s
  | p :: ps, i, s =>
    match findInput req p with
    | none => inputLoop req nIn ps (i + 1) { s with warnings := s.warnings ++ ["Missing input: " ++ p ++ ", using 0"] }
    | some thisInput =>
      match s.inputs with
      | none =>
        -- inputs = data.NewArray3DFloat64(1, len(desc.Inputs), len(thisInput)); Apply
        let rows := List.replicate nIn (List.replicate thisInput.length (JNum.zero : α))
        inputLoop req nIn ps (i + 1) { s with inputs := some (setRow rows i thisInput) }
      | some rows =>
        let T := (rows.headD []).length
        if thisInput.length ≠ T then
          .error ("Input " ++ p ++ " has " ++ toString thisInput.length ++ " values, expected " ++ toString T)
        else inputLoop req nIn ps (i + 1) { s with inputs := some (setRow rows i thisInput) }

inductive InitRes (α : Type) where
  | err (msg : String)
  | panic (cls : String)
  | ok (desc : ModelDesc α) (params : List α) (inputs : List (List α)) (warnings : List String)

/-- `singleModel.Initialise()` (repaired) -/
def initialise (cat : String → Option (ModelDesc α)) (K : Kernel α) (m : ParsedRequest α) : InitRes α :=
  -- warnings := make([]string, 1)
  let warnings0 : List String := [""]
  if m.name = "" then .err "No model name provided"
  else match cat m.name with
    | none => .err ("Unknown model: " ++ m.name)
    | some desc =>
      let (params, pw) := paramLoop m.parameters desc.params
      let warnings := warnings0 ++ pw
      -- model.ApplyParameters(uniformParameters(params, 1)); states = model.InitialiseStates(1) (both branches alike)
      match K.init params with
      | .error cls => .panic cls
      | .ok () =>
        match inputLoop m.inputs desc.inputs.length desc.inputs 0 { inputs := none, warnings := warnings } with
        | .error msg => .err msg
        | .ok s =>
          match s.inputs with
          | none => .err "No inputs provided"
          | some rows => .ok desc params rows s.warnings

/-! ### encodeResults -/

/-- Go map insertion on an association list with unique keys -/
def mapInsert (ks : List String) (vs : List (JVal α)) (k : String) (v : JVal α) : List String × List (JVal α) :=
  match ks.idxOf? k with
  | some i => (ks, vs.set i v)
  | none => (ks ++ [k], vs ++ [v])

/-- the n-d array plumbing of `encodeResults` for `results.Outputs` (a fresh 1×nOut×T array holding `outs`) -/
def encodeOutputs (outs : List (List α)) (T : Nat) (names : List String) (split : Bool) : R (JVal α) := do
  let nOut : Nat := outs.length
  let (h, sid) := alloc ([] : Heap α) outs.flatten
  let o3 ← fromStore h sid [1, nOut, T]
  -- outputArray := results.Outputs.MustReshape(results.Outputs.Shape()[1:])
  let (h, outputArray) ← mustReshape h o3 (o3.v.dims.drop 1)
  if split then
    let length ← outputArray.v.len 1
    let rec loop (h : Heap α) (i : Nat) (ks : List String) (vs : List (JVal α)) :
        List String → R (List String × List (JVal α))
      | [] => .ok (ks, vs)
      | output :: rest => do
        let sl ← slice outputArray [i, 0] [1, length] (some [1, 1])
        let (h, singleOutput) ← mustReshape h sl [length]
        let xs ← jsonSafeArray h singleOutput 0
        let (ks, vs) := mapInsert ks vs output (.arr xs)
        loop h (i + 1) ks vs rest
    let (ks, vs) ← loop h 0 [] [] names
    pure (.obj ks vs)
  else
    let xs ← jsonSafeArray h outputArray 0
    pure (.arr xs)

/-- the same for `results.States` (a 1×W array holding `states`); REPAIRED: the map only when `W = len(description.States)` -/
def encodeStates (states : List α) (names : List String) (split : Bool) : R (JVal α) := do
  let W : Nat := states.length
  let (h, sid) := alloc ([] : Heap α) states
  let s2 ← fromStore h sid [1, W]
  let (h, stateArray) ← mustReshape h s2 (s2.v.dims.drop 1)
  let w ← stateArray.v.len 0
  if split ∧ w = names.length then
    let rec loop (i : Nat) (ks : List String) (vs : List (JVal α)) : List String → R (List String × List (JVal α))
      | [] => .ok (ks, vs)
      | state :: rest => do
        let x ← get h stateArray [i]
        let (ks, vs) := mapInsert ks vs state (jsonSafeValue x)
        loop (i + 1) ks vs rest
    let (ks, vs) ← loop 0 [] [] names
    pure (.obj ks vs)
  else
    let xs ← jsonSafeArray h stateArray 0
    pure (.arr xs)

/-- `singleModelResults` as a document; `logs = none` is a nil slice (encoded `null`) -/
def document (logs : Option (List String)) (outputs states : JVal α) : JVal α :=
  .obj ["Log", "RunResults"]
    [match logs with | none => .null | some l => .arr (l.map .str),
     .obj ["Outputs", "States"] [outputs, states]]

/-- `encodeResults(w, runLogs, results, description, splitOutputs)`: the document written, or the panic class -/
def encodeResults (logs : Option (List String)) (results : Option (List (List α) × List α)) (T : Nat)
    (desc : ModelDesc α) (split : Bool) : R (JVal α) :=
  match results with
  | none => .ok (document logs .null .null)
  | some (outs, states) => do
    let o ← encodeOutputs outs T desc.outputs split
    let s ← encodeStates states desc.states split
    pure (document logs o s)

/-- `runLogs` after logging the lines `ls` one by one onto a nil slice -/
def logged (ls : List String) : Option (List String) := if ls.isEmpty then none else some ls

def emptyDesc : ModelDesc α := { params := [], inputs := [], states := [], outputs := [] }

/-- the deferred `encodeResults` followed by how the function ends -/
def finish (logs : List String) (results : Option (List (List α) × List α)) (T : Nat) (desc : ModelDesc α)
    (split : Bool) (ending : Ending) : Response α :=
  match encodeResults (logged logs) results T desc split with
  | .ok doc => { written := [doc], ending := ending }
  | .error cls =>
    -- a panic inside the deferred call replaces the current one; nothing was written
    { written := [], ending := .panicked cls }

/-- `RunSingleModelJSON(r, w, splitOutputs)` after `Decode`: `.inr msg` is `err.Error()` of the decoder -/
def respond (cat : String → Option (ModelDesc α)) (K : Kernel α) (split : Bool) :
    ParsedRequest α ⊕ String → Response α
  | .inr msg => finish [msg] none 0 emptyDesc split .returned
  | .inl m =>
    match initialise cat K m with
    | .err msg => finish [msg] none 0 emptyDesc split .returned
    | .panic cls => finish [] none 0 emptyDesc split (.panicked cls)
    | .ok desc params inputs warnings =>
      -- for _, w := range warnings { log(w) };  description = model.Description()
      let T := (inputs.headD []).length          -- inputs.Len3()
      -- outputs := InitialiseOutputs(model, T, 1); model.Run(inputs, states, outputs)
      match K.run params inputs with
      | .died cls => { written := [], ending := .died cls }
      | .panic cls => finish warnings none T desc split (.panicked cls)
      | .ok outs states => finish warnings (some (outs, states)) T desc split .returned

end
end OW.Sim.Json
