import OW.Sim.Graph
/-
cmd/ow-sim/main.go — the writer protocol as a labelled transition system (core Lean only; property C07-T2).

Threads: the main goroutine (generation loop, then the final wait loop) and one writer goroutine W(g) per generation,
spawned by the main loop after `runGeneration(g)` and before the links of generation g are processed. They communicate
through the UNBUFFERED channel `writingDone`: a send and a receive complete together (one transition).

  main:   for i < G { runGeneration(i); go W(i); process links of i }            run i → links i → run (i+1) | final
          for { k := <-writingDone; if k == G-1 {break}; writingDone <- k; sleep } final → exited | hold k → final
  W(g):   if g > 0 { for { k := <-writingDone                                      waiting → got k
                           purge k                                                  got k → ready (k = g-1) | bounce k
                           if k == g-1 {break}
                           writingDone <- k; sleep } }                              bounce k → resend k → waiting
          writeGeneration(g)                                                        ready → writing → wrote
          writingDone <- g                                                          wrote → sending → done

The labels are exactly the events of the hook trace (`verifTrace` calls in main.go); `sent`/`resent` are logged BEFORE
the blocking send, `recv`/`mrecv` after the receive, so in every trace a send precedes the matching receive.
-/
namespace OW.Sim.Writer
open OW.Sim

inductive WPc where
  | notSpawned
  | waiting
  | got (k : Nat)
  | bounce (k : Nat)
  | resend (k : Nat)
  | ready
  | writing
  | wrote
  | sending
  | done
deriving DecidableEq, Repr

inductive MPc where
  | run (i : Nat)
  | links (i : Nat)
  | final
  | hold (k : Nat)
  | exited
deriving DecidableEq, Repr

/-- who is on the sending side of a rendezvous on token `k`: W(k) itself, a bouncing writer, or the main goroutine -/
inductive Sender where
  | own
  | bouncer (h : Nat)
  | main
deriving DecidableEq, Repr

inductive Label where
  | spawn (g : Nat)
  | links (g : Nat)
  | recv (h k : Nat) (sender : Sender)
  | mrecv (k : Nat) (sender : Sender)
  | purge (h k : Nat)
  | resent (h k : Nat)
  | wstart (g : Nat)
  | wdone (g : Nat)
  | sent (g : Nat)
deriving DecidableEq, Repr

structure State where
  mpc : MPc
  wpc : Nat → WPc
  /-- how many times generation g has been written -/
  writes : Nat → Nat
  /-- the outgoing links of generation g have been applied -/
  links : Nat → Bool
  /-- how many times generation k has been purged -/
  purges : Nat → Nat

def init : State := ⟨.run 0, fun _ => .notSpawned, fun _ => 0, fun _ => false, fun _ => 0⟩

/-- the sending side of a rendezvous on token `k` moves on -/
def takeFrom (G : Nat) (s : State) (k : Nat) : Sender → Option State
  | .own => if k < G ∧ s.wpc k = .sending then some { s with wpc := upd s.wpc k .done } else none
  | .bouncer h => if h < G ∧ s.wpc h = .resend k then some { s with wpc := upd s.wpc h .waiting } else none
  | .main => if s.mpc = .hold k then some { s with mpc := .final } else none

/-- one transition of the system with `G` generations; `none` = the label is not enabled -/
def step (G : Nat) (s : State) : Label → Option State
  | .spawn g =>
    if s.mpc = .run g ∧ g < G ∧ s.wpc g = .notSpawned then
      some { s with mpc := .links g, wpc := upd s.wpc g (if g = 0 then .ready else .waiting) }
    else none
  | .links g =>
    if s.mpc = .links g then
      some { s with links := upd s.links g true, mpc := if g + 1 < G then .run (g + 1) else .final }
    else none
  | .recv h k sender =>
    if h < G ∧ s.wpc h = .waiting then
      match takeFrom G s k sender with
      | some s' => some { s' with wpc := upd s'.wpc h (.got k) }
      | none => none
    else none
  | .mrecv k sender =>
    if s.mpc = .final then
      match takeFrom G s k sender with
      | some s' => some { s' with mpc := if k + 1 = G then .exited else .hold k }
      | none => none
    else none
  | .purge h k =>
    if h < G ∧ s.wpc h = .got k then
      some { s with purges := upd s.purges k (s.purges k + 1), wpc := upd s.wpc h (if k + 1 = h then .ready else .bounce k) }
    else none
  | .resent h k =>
    if h < G ∧ s.wpc h = .bounce k then some { s with wpc := upd s.wpc h (.resend k) } else none
  | .wstart g =>
    if g < G ∧ s.wpc g = .ready then some { s with wpc := upd s.wpc g .writing } else none
  | .wdone g =>
    if g < G ∧ s.wpc g = .writing then
      some { s with wpc := upd s.wpc g .wrote, writes := upd s.writes g (s.writes g + 1) }
    else none
  | .sent g =>
    if g < G ∧ s.wpc g = .wrote then some { s with wpc := upd s.wpc g .sending } else none

/-- all generations written exactly once, all links applied, all writers finished, main exited -/
def terminal (G : Nat) (s : State) : Bool :=
  decide (s.mpc = .exited) &&
    (List.range G).all fun g => decide (s.wpc g = .done) && decide (s.writes g = 1) && s.links g

/-! ### trace acceptor (the hook trace does not name the sender: the first enabled candidate is taken) -/

def senders (G : Nat) : List Sender := .own :: ((List.range G).map .bouncer ++ [.main])

def firstSome {β : Type} (f : Sender → Option β) : List Sender → Option β
  | [] => none
  | c :: cs => match f c with
    | some r => some r
    | none => firstSome f cs

/-- one trace event `ev a b` (missing arguments are -1) -/
def stepEvent (G : Nat) (s : State) (ev : String) (a b : Int) : Option State :=
  if a < 0 then none
  else
    let x := a.toNat
    match ev with
    | "spawn" => step G s (.spawn x)
    | "links" => step G s (.links x)
    | "recv" => if b < 0 then none else firstSome (fun c => step G s (.recv x b.toNat c)) (senders G)
    | "mrecv" => firstSome (fun c => step G s (.mrecv x c)) (senders G)
    | "purge" => if b < 0 then none else step G s (.purge x b.toNat)
    | "resent" => if b < 0 then none else step G s (.resent x b.toNat)
    | "wstart" => step G s (.wstart x)
    | "wdone" => step G s (.wdone x)
    | "sent" => step G s (.sent x)
    | _ => none

def runEvents (G : Nat) : State → Nat → List (String × Int × Int) → String
  | s, _, [] => if terminal G s then "accept" else "incomplete"
  | s, i, (ev, a, b) :: rest =>
    match stepEvent G s ev a b with
    | some s' => runEvents G s' (i + 1) rest
    | none => "reject " ++ toString i

def verdict (G : Nat) (evs : List (String × Int × Int)) : String :=
  if G < 1 then "reject 0" else runEvents G init 0 evs

end OW.Sim.Writer
