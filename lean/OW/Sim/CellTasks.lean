import OW.Sim.Wrapper
import OW.Sim.Interleave
/-
C05, instance of the generic interleaving model on the wrapper semantics (OW/Sim/Wrapper.lean): the state and
output arrays of one `Run` call as a shared memory, one task per cell. Core Lean only.

Addresses are (array, cell row): `st i` = row `i` of the states array, `out i` = the output rows of cell `i`
(`outputs[i, ·, ·]`). Parameters and inputs are not addresses: nothing writes them (they are arguments of
`cellStep`; that the real code leaves them alone is C04's frame oracle and the C05 run facts).
The goroutine of cell `i` is ONE atomic step whose footprint is {st i, out i}: it reads its own state row and output
rows, runs `cellStep` (decode parameters, pick input block `i % nBlocks`, run the kernel, overwrite) and writes its
own state row and output rows. (Finer-grained splittings of that step whose steps stay inside that footprint give the
same result under every interleaving: `OW.Props.C05.refined_cells_any_interleaving`. The footprint itself — distinct
addresses for distinct cells — is ASSERTED here; that the rows are distinct storage positions is `C04Nd.views_disjoint`.)
-/
namespace OW.Sim.CellTasks
open OW OW.Sim OW.Sim.Interleave

inductive CAddr where
  | st (i : Nat)
  | out (i : Nat)
  deriving DecidableEq, Repr

def CAddr.idx : CAddr → Nat
  | .st i => i
  | .out i => i

/-- contents of an address: a state row, the output rows of a cell, or nothing (row outside the array) -/
inductive CVal (α : Type) where
  | st (row : List α)
  | out (rows : List (List α))
  | none

variable {α : Type}

/-- the memory image of a states array and an outputs array -/
def memOf (ss : List (List α)) (os : List (List (List α))) : Mem CAddr (CVal α)
  | .st i => match ss[i]? with
    | some r => .st r
    | none => .none
  | .out i => match os[i]? with
    | some r => .out r
    | none => .none

theorem memOf_inj {ss ss' : List (List α)} {os os' : List (List (List α))} (h : memOf ss os = memOf ss' os') :
    ss = ss' ∧ os = os' := by
  constructor
  · apply List.ext_getElem?
    intro i
    have := congrFun h (.st i)
    simp only [memOf] at this
    cases h1 : ss[i]? <;> cases h2 : ss'[i]? <;> simp [h1, h2] at this ⊢
    exact this
  · apply List.ext_getElem?
    intro i
    have := congrFun h (.out i)
    simp only [memOf] at this
    cases h1 : os[i]? <;> cases h2 : os'[i]? <;> simp [h1, h2] at this ⊢
    exact this

variable [Num α]

/-- what cell `i` writes, as a function of the two values it reads -/
def cellNew (km : KModel α) (spec : ParamSpec) (lay : List (Nat × Nat)) (params : List (List α))
    (inputs : List (List (List α))) (i : Nat) (vs vo : CVal α) : Option (CVal α × CVal α) :=
  match vs, vo with
  | .st s, .out o =>
    match cellStep km spec lay params inputs i s o with
    | .ok (s', o') => some (.st s', .out o')
    | .error _ => none
  | _, _ => none

def cellRun (km : KModel α) (spec : ParamSpec) (lay : List (Nat × Nat)) (params : List (List α))
    (inputs : List (List (List α))) (i : Nat) (m : Mem CAddr (CVal α)) : Mem CAddr (CVal α) :=
  match cellNew km spec lay params inputs i (m (.st i)) (m (.out i)) with
  | some (a, b) => upd (upd m (.st i) a) (.out i) b
  | none => m

/-- the goroutine of cell `i` as an atomic step with footprint {st i, out i} -/
def cellStepM (km : KModel α) (spec : ParamSpec) (lay : List (Nat × Nat)) (params : List (List α))
    (inputs : List (List (List α))) (i : Nat) : Step CAddr (CVal α) where
  run := cellRun km spec lay params inputs i
  reads := [.st i, .out i]
  writes := [.st i, .out i]
  frame := by
    intro m a ha
    have h1 : a ≠ .st i := fun h => ha (by simp [h])
    have h2 : a ≠ .out i := fun h => ha (by simp [h])
    unfold cellRun
    cases cellNew km spec lay params inputs i (m (.st i)) (m (.out i)) with
    | none => rfl
    | some p => simp only [upd_other _ _ _ _ h2, upd_other _ _ _ _ h1]
  loc := by
    intro m m' h a ha
    have h1 : m (.st i) = m' (.st i) := h _ (by simp)
    have h2 : m (.out i) = m' (.out i) := h _ (by simp)
    have haa : m a = m' a := h a (by simp [ha])
    simp only [cellRun, h1, h2]
    cases cellNew km spec lay params inputs i (m' (.st i)) (m' (.out i)) with
    | none => exact haa
    | some p =>
      rcases List.mem_cons.mp ha with e | e
      · subst e; simp [upd]
      · have e' : a = .out i := by simpa using e
        subst e'; simp [upd]

/-- one single-step task per cell -/
def cellTasks (km : KModel α) (spec : ParamSpec) (lay : List (Nat × Nat)) (params : List (List α))
    (inputs : List (List (List α))) (n : Nat) : List (Task CAddr (CVal α)) :=
  (List.range n).map fun i => [cellStepM km spec lay params inputs i]

end OW.Sim.CellTasks
