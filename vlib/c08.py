"""Property C08 — tie A: the lock / call graph of package io is REGENERATED from the Go sources on every run.

lockgraph_step(check, ctx)
    builds harness/cmd/owlockgraph (go/parser + go/ast only; package io does not type-check without libhdf5; a function
    literal handed to a `lock…(); defer unlock…(); body()` helper is a node called BY THE HELPER, see the extractor's header),
    runs it on <repo>/io and rewrites lean/OW/Gen/IoLockGraph.lean when the text differs (under the lake lock, so that no
    concurrent `lake build` sees a half-written file). The generated file ends with
        theorem ioLockGraph_ok : lockCheck ioLockGraph = true := by decide +kernel
    so a graph that violates the discipline makes `lake build OW.Props.C08` fail *inside OW/Gen* — which vlib.core
    reports as a broken proof obligation (a verdict), not as an internal error.
    For the report the same relaxation as `OW.Sim.LockCheck.solve` is run here on the extractor's JSON and every
    offending library call is listed with a call chain from an exported entry point. These are reported as broken PROOF
    OBLIGATIONS (not as failing inputs: a behaviour-preserving re-plumbing of the locking breaks the graph rule as well); the
    failing input comes from the dynamic side (family H5 asserts the lock probe at every library call). The obligation itself
    never depends on this Python code: it is the Lean kernel evaluating `lockCheck` on the regenerated data.
"""
import json
import os

from vlib import core
from vlib.core import GOENV, HARNESS, LEAN, Internal, Lock

RANK = {"none": 0, "shared": 1, "exclusive": 2}
GEN = os.path.join(LEAN, "OW", "Gen", "IoLockGraph.lean")


def explain(fns):
    """Offending (function, library call) pairs with a witness call chain, by the relaxation of LockCheck.solve."""
    idx = {f["name"]: i for i, f in enumerate(fns)}
    ctx = [0 if f["exported"] else 2 for f in fns]
    pred = [None] * len(fns)
    changed = True
    while changed:
        changed = False
        for i, f in enumerate(fns):
            eff = max(ctx[i], RANK[f["lock"]])
            for c in f.get("calls") or []:
                j = idx.get(c)
                if j is not None and eff < ctx[j]:
                    ctx[j], pred[j], changed = eff, i, True

    def chain(i):
        out, seen = [], set()
        while i is not None and i not in seen:
            seen.add(i)
            out.append("%s[%s]" % (fns[i]["name"], fns[i]["lock"]))
            i = pred[i]
        return " <- ".join(out)

    bad = []
    for i, f in enumerate(fns):
        if f["irregular"]:
            bad.append("%s touches the package lock outside the `lock…; defer unlock…` entry pattern (%s)" % (f["name"], f["file"]))
        eff = max(ctx[i], RANK[f["lock"]])
        for l in f.get("lib") or []:
            need = 2 if l["mutating"] else 1
            if eff < need:
                bad.append("%s calls %s (%s) holding %s; call chain (callee <- caller): %s" % (
                    f["name"], l["name"], "mutating: needs the exclusive lock" if l["mutating"] else "needs the lock",
                    ["no lock", "only the shared lock", "the exclusive lock"][eff], chain(i)))
    return bad, ctx


def lockgraph_step(check, ctx):
    repo = os.path.realpath(core.REPO)
    iodir = os.path.join(repo, "io")
    exe = os.path.join(ctx["workdir"], "owlockgraph")
    r = core.run(["go", "build", "-o", exe, "./cmd/owlockgraph"], cwd=HARNESS, env=GOENV)
    if r.returncode != 0:
        raise Internal("owlockgraph does not build:\n" + (r.stderr or "")[-2000:])
    rj = core.run([exe, "-json", iodir])
    rl = core.run([exe, iodir])
    if rj.returncode != 0 or rl.returncode != 0:
        # the sources no longer parse: nothing can be said about them
        raise Internal("owlockgraph failed on %s:\n%s" % (iodir, (rj.stderr or rl.stderr or "")[-2000:]))
    fns = json.loads(rj.stdout)
    text = rl.stdout
    with Lock("lake"):
        old = open(GEN).read() if os.path.exists(GEN) else None
        if old != text:
            tmp = GEN + ".tmp%d" % os.getpid()
            with open(tmp, "w") as f:
                f.write(text)
            os.replace(tmp, GEN)
    info = ctx["info"]
    info["lock_graph"] = {
        "functions": len(fns), "exported": sum(1 for f in fns if f["exported"]),
        "acquire_exclusive": sum(1 for f in fns if f["lock"] == "exclusive"),
        "acquire_shared": sum(1 for f in fns if f["lock"] == "shared"),
        "library_calls": sum(len(f.get("lib") or []) for f in fns),
        "mutating_library_calls": sum(1 for f in fns for l in (f.get("lib") or []) if l["mutating"]),
        "call_edges": sum(len(f.get("calls") or []) for f in fns),
        "regenerated_file_changed": old != text,
        "source": iodir,
    }
    info.setdefault("samples", []).append(
        "lock graph of %s: %d functions, %d library calls (%d mutating), %d call edges" % (
            iodir, len(fns), info["lock_graph"]["library_calls"], info["lock_graph"]["mutating_library_calls"],
            info["lock_graph"]["call_edges"]))
    bad, _ = explain(fns)
    problems = []
    if bad:
        info["lock_graph"]["offenders"] = bad[:20]
        # the lock graph is a PROOF OBLIGATION about the shape of the current source (a hypothesis of the C08 lock theorems), not a
        # failing input: a behaviour-preserving re-plumbing of the locking (helpers taking a closure, …) breaks it as well. The failing
        # input comes from the dynamic side: the H5 family asserts the lock probe (held / exclusive) at EVERY library call of every
        # generated history; when that finds nothing the verdict is no-failing-input-found.
        for k, b in enumerate(bad[:5]):
            problems.append({"kind": "proof-obligation", "name": "lock graph rule violated: " + b[:160], "detail": b})
    return problems
