"""Mutation batteries for the two structural extractors (stdlib only; nothing here is part of a check).

    python3 -m vlib.structural_mutations            # both
    python3 -m vlib.structural_mutations runfacts   # harness/cmd/owrunfacts   (C05 / C04 run facts)
    python3 -m vlib.structural_mutations lockgraph  # harness/cmd/owlockgraph  (C08 lock graph)

For each battery: scratch copies of /repo HEAD (`git archive`, nothing is registered in /repo) with one of the stored
CORRECT re-plumbings applied (harmless/h3/C05-1 sync.WaitGroup + named per-cell method, C05-2 bounded worker pool,
C04-1 per-cell view helpers in sim/cellviews.go, C08-1 lock helpers taking a closure), then ONE textual mutation each.
`accept` = the extractor must list no violation / no offender (the form is understood); `reject` = it must list at least
one (the obligation breaks). The extractors' Go-side lists are what is compared here; the obligations themselves are the
Lean evaluations (`runFactsOk`, `lockCheck`) of the same data, which agree with these lists on every case tried.
Exit status 1 when an expectation fails.
"""
import collections
import json
import os
import re
import shutil
import subprocess
import sys
import tempfile

from vlib import core
from vlib.core import GOENV, HARNESS, VERIF
from vlib.c08 import explain

REPO = "/repo"
H3 = os.path.join(VERIF, "harmless", "h3")
G = "models/rr/generated_GR4J.go"
C = "models/routing/generated_InstreamCoarseSediment.go"
V = "sim/cellviews.go"


def _build(cmd, out):
    r = core.run(["go", "build", "-o", out, "./cmd/" + cmd], cwd=HARNESS, env=GOENV)
    if r.returncode != 0:
        raise SystemExit("%s does not build:\n%s" % (cmd, r.stderr))
    return out


def _tree(dst, patch=None):
    os.makedirs(dst)
    p = subprocess.Popen(["git", "-C", REPO, "archive", "HEAD"], stdout=subprocess.PIPE)
    subprocess.run(["tar", "-x", "-C", dst], stdin=p.stdout, check=True)
    p.wait()
    if patch:
        r = subprocess.run(["git", "apply", "--whitespace=nowarn", patch], cwd=dst, stdout=subprocess.PIPE, stderr=subprocess.STDOUT, text=True)
        if r.returncode != 0:
            raise SystemExit("patch %s does not apply: %s" % (patch, r.stdout))
    return dst


class Battery:
    def __init__(self, work):
        self.work = work
        self.bases = {}
        self.rows = []
        self.failed = 0

    def base(self, name, patch):
        self.bases[name] = _tree(os.path.join(self.work, "base-" + name), patch)

    def mutant(self, base, name, edits, expect, judge, note=""):
        d = os.path.join(self.work, "m")
        shutil.rmtree(d, ignore_errors=True)
        shutil.copytree(self.bases[base], d)
        for f, old, new in edits:
            p = os.path.join(d, f)
            s = open(p).read()
            if old not in s:
                self.rows.append(("??", base, name, "pattern not found in %s: %r" % (f, old[:50])))
                self.failed += 1
                return
            open(p, "w").write(s.replace(old, new, 1))
        res = judge(d)
        ok = (res == "accepted") == (expect == "accept")
        if note:
            res += "   [" + note + "]"
        self.rows.append(("ok" if ok else "BAD", base, name, res))
        if not ok:
            self.failed += 1

    def report(self, title):
        print("== %s: %d cases, %d unexpected" % (title, len(self.rows), self.failed))
        for st, base, name, res in self.rows:
            print("%-3s %-12s %-50s %s" % (st, base, name, res[:200]))


# ---------------------------------------------------------------------------------------------------------------

def runfacts(work):
    exe = _build("owrunfacts", os.path.join(work, "owrunfacts"))

    def judge(tree):
        js = os.path.join(work, "facts.json")
        r = core.run([exe, "-json", js, tree], env=GOENV)
        if r.returncode != 0:
            return "EXTRACTOR FAILED " + (r.stderr or "")[-200:]
        vs = json.load(open(js))["violations"]
        if not vs:
            return "accepted"
        return "rejected %s | %s" % (dict(collections.Counter(v["rule"] for v in vs)), vs[0]["detail"][:110])

    b = Battery(work)
    b.base("plain", None)
    b.base("wg", os.path.join(H3, "C05-1", "patch.diff"))
    b.base("pool", os.path.join(H3, "C05-2", "patch.diff"))
    b.base("views", os.path.join(H3, "C04-1", "patch.diff"))
    m = lambda base, name, edits, expect, note="": b.mutant(base, name, edits, expect, judge, note)

    m("plain", "unchanged tree", [], "accept")
    # --- sync.WaitGroup join, cell body in a named method
    call = ("      m.runCell(i, inputs, states, outputs,\n                numStates, numInputSequences, inputLen,\n"
            "                cellInputsShape, inputNewShape,\n                outputStepSlice, outputSizeSlice, statesSizeSlice, inputsSizeSlice)\n"
            "      cells.Done()\n")
    nodone = call.replace("      cells.Done()\n", "")
    m("wg", "harmless C05-1 as stored", [], "accept")
    m("wg", "no Wait()", [(G, "  cells.Wait()\n", "")], "reject")
    m("wg", "Add(numCells-1)", [(G, "cells.Add(numCells)", "cells.Add(numCells-1)")], "reject")
    m("wg", "no Done()", [(G, "      cells.Done()\n", "")], "reject")
    m("wg", "Done() before the work", [(G, call, "      cells.Done()\n" + nodone)], "reject")
    m("wg", "Add after the loop", [(G, "  cells.Add(numCells)\n", ""), (G, "  cells.Wait()\n", "  cells.Add(numCells)\n  cells.Wait()\n")], "reject")
    m("wg", "Wait() under a condition", [(G, "  cells.Wait()\n", "  if numCells > 4 {\n    cells.Wait()\n  }\n")], "reject")
    m("wg", "return between loop and Wait()", [(G, "  cells.Wait()\n", "  if numCells == 3 {\n    return\n  }\n  cells.Wait()\n")], "reject")
    m("wg", "Wait() before the loop", [(G, "  cells.Wait()\n", ""), (G, "  cells.Add(numCells)\n", "  cells.Add(numCells)\n  cells.Wait()\n")], "reject")
    m("wg", "count changed after Add", [(G, "  cells.Add(numCells)\n", "  cells.Add(numCells)\n  numCells = numCells - 1\n")], "reject")
    m("wg", "WaitGroup handed elsewhere", [(G, "  cells.Wait()\n", "  notify(&cells)\n  cells.Wait()\n"),
                                           (G, "func (m *GR4J) runCell", "func notify(w *sync.WaitGroup) { w.Done() }\nfunc (m *GR4J) runCell")], "reject")
    m("wg", "package-level WaitGroup", [(G, "  var cells sync.WaitGroup\n", ""), (G, "func (m *GR4J) runCell", "var cells sync.WaitGroup\nfunc (m *GR4J) runCell")], "reject")
    m("wg", "deferred Done() first", [(G, call, "      defer cells.Done()\n" + nodone)], "accept")
    m("wg", "deferred Done() not first", [(G, call, nodone.replace("      m.runCell", "      x := 1\n      _ = x\n      defer cells.Done()\n      m.runCell"))], "reject")
    m("wg", "Add(1) before each go", [(G, "  cells.Add(numCells)\n", ""), (G, "    go func(i int){\n      m.runCell", "    cells.Add(1)\n    go func(i int){\n      m.runCell")], "accept")
    m("wg", "Add(1) after each go", [(G, "  cells.Add(numCells)\n", ""), (G, "    }(j)\n  }\n  cells.Wait", "    }(j)\n    cells.Add(1)\n  }\n  cells.Wait")], "reject")
    m("wg", "Add(2) before each go", [(G, "  cells.Add(numCells)\n", ""), (G, "    go func(i int){\n      m.runCell", "    cells.Add(2)\n    go func(i int){\n      m.runCell")], "reject")
    m("wg", "Done() in one branch only", [(G, "      cells.Done()\n", "      if i > 0 {\n        cells.Done()\n      }\n")], "reject")
    m("wg", "second goroutine per iteration", [(G, "    }(j)\n  }\n  cells.Wait", "    }(j)\n    go func(){ cells.Done() }()\n  }\n  cells.Wait")], "reject")
    m("wg", "break in the launch loop", [(G, "    go func(i int){\n      m.runCell", "    if j == 7 {\n      break\n    }\n    go func(i int){\n      m.runCell")], "reject")
    m("wg", "named method + done channel", [(G, "  var cells sync.WaitGroup\n  cells.Add(numCells)\n", "  doneChan := make(chan int)\n"), (G, "      cells.Done()\n", "      doneChan <- i\n"),
                                            (G, "  cells.Wait()\n", "  for j := 0; j < numCells; j++ {\n    <- doneChan\n  }\n")], "accept")
    m("wg", "runCell pins the next row", [(C, "statesPosSlice[sim.DIMS_CELL] = i\n", "statesPosSlice[sim.DIMS_CELL] = i+1\n")], "reject")
    m("wg", "runCell pins under a condition", [(C, "  statesPosSlice[sim.DIMS_CELL] = i\n", "  if i > 2 {\n  statesPosSlice[sim.DIMS_CELL] = i\n  }\n")], "reject")
    m("wg", "runCell: early return before the pin", [(C, "  statesPosSlice[sim.DIMS_CELL] = i\n", "  if numStates > 99 {\n    return\n  }\n  statesPosSlice[sim.DIMS_CELL] = i\n")], "reject")
    m("wg", "runCell keeps a vector in the model object", [(G, "  outputPosSlice := outputs.NewIndex(0)\n  statesPosSlice", "  m.scratch = outputs.NewIndex(0)\n  outputPosSlice := outputs.NewIndex(0)\n  statesPosSlice")], "reject")
    m("wg", "runCell writes a package variable", [(G, "  outputPosSlice := outputs.NewIndex(0)\n  statesPosSlice", "  lastCell = i\n  outputPosSlice := outputs.NewIndex(0)\n  statesPosSlice"),
                                                  (G, "func (m *GR4J) runCell", "var lastCell int\nfunc (m *GR4J) runCell")], "reject")
    m("wg", "closure passes the loop variable", [(G, "      m.runCell(i, inputs", "      m.runCell(j, inputs")], "reject")
    m("wg", "runCell(i+1, …)", [(G, "      m.runCell(i, inputs", "      m.runCell(i+1, inputs")], "reject")
    m("wg", "states written at a fixed row", [(G, "states.ApplySlice([]int{i,0}", "states.ApplySlice([]int{0,0}")], "reject")
    m("wg", "runCell recursive", [(G, "  outputPosSlice := outputs.NewIndex(0)\n  statesPosSlice",
                                   "  if i < 0 {\n    m.runCell(i, inputs, states, outputs, numStates, numInputSequences, inputLen, cellInputsShape, inputNewShape, outputStepSlice, outputSizeSlice, statesSizeSlice, inputsSizeSlice)\n  }\n"
                                   "  outputPosSlice := outputs.NewIndex(0)\n  statesPosSlice")], "reject")
    # --- bounded worker pool
    decl = "        outputPosSlice := outputs.NewIndex(0)\n        statesPosSlice := states.NewIndex(0)\n        inputsPosSlice := inputs.NewIndex(0)\n"
    m("pool", "harmless C05-2 as stored", [], "accept")
    m("pool", "no close()", [(G, "  close(cellChan)\n", "")], "reject")
    m("pool", "fill 0..numCells-2", [(G, "  for j := 0; j < numCells; j++ {\n    cellChan <- j", "  for j := 0; j < numCells-1; j++ {\n    cellChan <- j")], "reject")
    m("pool", "fill from 1", [(G, "  for j := 0; j < numCells; j++ {\n    cellChan <- j", "  for j := 1; j < numCells; j++ {\n    cellChan <- j")], "reject")
    m("pool", "fill j+1", [(G, "    cellChan <- j\n", "    cellChan <- j+1\n")], "reject")
    m("pool", "each index twice", [(G, "    cellChan <- j\n", "    cellChan <- j\n    cellChan <- j\n")], "reject")
    m("pool", "break in the range body", [(G, "      for i := range cellChan {\n", "      for i := range cellChan {\n        if i == 3 {\n          break\n        }\n")], "reject")
    m("pool", "cell index modified", [(G, "      for i := range cellChan {\n", "      for i := range cellChan {\n        i = i + 0\n")], "reject")
    m("pool", "possibly zero workers", [(G, "numWorkers := runtime.GOMAXPROCS(0)", "numWorkers := runtime.GOMAXPROCS(0) - 1")], "reject")
    m("pool", "clamp to numCells/2", [(G, "    numWorkers = numCells\n", "    numWorkers = numCells / 2\n")], "reject")
    m("pool", "unbuffered cell channel", [(G, "make(chan int, numCells)", "make(chan int)")], "reject")
    m("pool", "capacity 2*numCells", [(G, "make(chan int, numCells)", "make(chan int, 2*numCells)")], "reject")
    m("pool", "numCells changed after the make", [(G, "  close(cellChan)\n", "  numCells = numCells + 0\n  close(cellChan)\n")], "reject")
    m("pool", "second consumer of the cell channel", [(G, "  doneChan := make(chan int)\n", "  <-cellChan\n  doneChan := make(chan int)\n")], "reject")
    m("pool", "done token per cell", [(G, "      for i := range cellChan {\n", "      for i := range cellChan {\n        doneChan <- i\n")], "reject")
    m("pool", "receive numCells tokens", [(G, "  for w := 0; w < numWorkers; w++ {\n    <- doneChan", "  for w := 0; w < numCells; w++ {\n    <- doneChan")], "reject")
    m("pool", "worker count changed before the receives", [(G, "  for w := 0; w < numWorkers; w++ {\n    <- doneChan", "  numWorkers = numWorkers - 1\n  for w := 0; w < numWorkers; w++ {\n    <- doneChan")], "reject")
    m("pool", "vectors per worker, pinned per cell", [(C, "      for i := range cellChan {\n" + decl, decl + "      for i := range cellChan {\n")], "accept")
    m("pool", "vectors shared by all workers", [(C, "      for i := range cellChan {\n" + decl, "      for i := range cellChan {\n"), (C, "  doneChan := make(chan int)\n", "  doneChan := make(chan int)\n" + decl)], "reject")
    m("pool", "pin from the worker number", [(C, "statesPosSlice[sim.DIMS_CELL] = i\n", "statesPosSlice[sim.DIMS_CELL] = worker\n")], "reject")
    m("pool", "write outside the range loop", [(C, "      doneChan <- worker\n", "      states.ApplySlice([]int{worker,0},[]int{0,1},nil)\n      doneChan <- worker\n")], "reject")
    m("pool", "literal 4 workers", [(G, "  for w := 0; w < numWorkers; w++ {\n    go", "  for w := 0; w < 4; w++ {\n    go"), (G, "  for w := 0; w < numWorkers; w++ {\n    <- doneChan", "  for w := 0; w < 4; w++ {\n    <- doneChan")], "accept")
    m("pool", "pool + WaitGroup (deferred Done)", [(G, "  doneChan := make(chan int)\n", "  var wg sync.WaitGroup\n  wg.Add(numWorkers)\n"), (G, "    go func(worker int){\n", "    go func(worker int){\n      defer wg.Done()\n"),
                                                   (G, "      doneChan <- worker\n", ""), (G, "  for w := 0; w < numWorkers; w++ {\n    <- doneChan\n  }\n", "  wg.Wait()\n"), (G, "import (", "import (\n  \"sync\"")], "accept")
    m("pool", "pool + WaitGroup Add(numCells)", [(G, "  doneChan := make(chan int)\n", "  var wg sync.WaitGroup\n  wg.Add(numCells)\n"), (G, "    go func(worker int){\n", "    go func(worker int){\n      defer wg.Done()\n"),
                                                 (G, "      doneChan <- worker\n", ""), (G, "  for w := 0; w < numWorkers; w++ {\n    <- doneChan\n  }\n", "  wg.Wait()\n"), (G, "import (", "import (\n  \"sync\"")], "reject")
    fill = "  cellChan := make(chan int, numCells)\n  for j := 0; j < numCells; j++ {\n    cellChan <- j\n  }\n  close(cellChan)\n"
    filler = "  go func() {\n    for j := 0; j < numCells; j++ {\n      cellChan <- j\n    }\n    close(cellChan)\n  }()\n"
    m("pool", "dedicated filler goroutine, unbuffered channel", [(G, fill, "  cellChan := make(chan int)\n" + filler)], "accept")
    m("pool", "dedicated filler goroutine, capacity 8", [(G, fill, "  cellChan := make(chan int, 8)\n" + filler)], "accept")
    m("pool", "filler without close()", [(G, fill, "  cellChan := make(chan int)\n" + filler.replace("    close(cellChan)\n", ""))], "reject")
    m("pool", "filler and a second close() in Run", [(G, fill, "  cellChan := make(chan int)\n" + filler + "  close(cellChan)\n")], "reject")
    m("pool", "filler that also writes the states", [(G, fill, "  cellChan := make(chan int)\n" + filler.replace("    close(cellChan)\n", "    states.Set2(0, 0, 1.0)\n    close(cellChan)\n"))], "reject")
    m("pool", "filler started after the workers are joined", [(G, fill, "  cellChan := make(chan int)\n"),
                                                               (G, "  for w := 0; w < numWorkers; w++ {\n    <- doneChan", filler + "  for w := 0; w < numWorkers; w++ {\n    <- doneChan")], "reject")
    m("pool", "numCells changed after the filler started", [(G, fill, "  cellChan := make(chan int)\n" + filler + "  numCells = numCells + 0\n")], "reject")
    # --- per-cell view helpers in another package
    m("views", "harmless C04-1 as stored", [], "accept")
    m("views", "Cell pins the next row", [(V, "c.statesPosSlice[DIMS_CELL] = i\n", "c.statesPosSlice[DIMS_CELL] = i + 1\n")], "reject")
    m("views", "Cell shares one position vector", [(V, "c.outputPosSlice = v.outputs.NewIndex(0)", "c.outputPosSlice = v.outputStepSlice")], "reject")
    m("views", "helper writes a package variable", [(V, "\treturn &c\n}", "\tlastView = &c\n\treturn &c\n}\n\nvar lastView *CellView")], "reject")
    m("views", "StoreOutput at a fixed location", [(V, "v.outputs.ApplySlice(c.outputPosSlice, v.outputStepSlice, reshaped)", "v.outputs.ApplySlice([]int{0, k, 0}, v.outputStepSlice, reshaped)")], "reject")
    m("views", "Cell caches the view in the shared struct", [(V, "\treturn &c\n}", "\tv.last = &c\n\treturn &c\n}"), (V, "\tNumCells          int\n", "\tNumCells          int\n\tlast *CellView\n")], "reject")
    m("views", "Cell returns a cached view", [(V, "\tc := CellView{views: v, Index: i}\n", "\tif v.last != nil {\n\t\treturn v.last\n\t}\n\tc := CellView{views: v, Index: i}\n"),
                                              (V, "\tNumCells          int\n", "\tNumCells          int\n\tlast *CellView\n")], "reject")
    m("views", "closure passes the loop variable", [(C, "cell := views.Cell(i)", "cell := views.Cell(j)")], "reject")
    m("views", "Cell(i+1)", [(C, "cell := views.Cell(i)", "cell := views.Cell(i+1)")], "reject")
    m("views", "States through a reshaped whole array", [(V, "return v.states.Slice(c.statesPosSlice, v.statesSizeSlice, nil).MustReshape([]int{v.NumStates}).(data.ND1Float64)",
                                                         "return v.states.MustReshape([]int{v.NumCells * v.NumStates}).Slice([]int{c.Index}, []int{v.NumStates}, nil).(data.ND1Float64)")], "reject")
    m("views", "one CellView built outside the goroutines", [(C, "      cell := views.Cell(i)\n", ""), (C, "  for j := 0; j < numCells; j++ {\n    go func(i int){", "  cell := views.Cell(0)\n  for j := 0; j < numCells; j++ {\n    go func(i int){")], "reject")
    m("views", "States from a shared position", [(V, "v.states.Slice(c.statesPosSlice, v.statesSizeSlice, nil)", "v.states.Slice(v.statesSizeSlice, v.statesSizeSlice, nil)")], "reject")
    m("views", "Output(k) resets the cell coordinate", [(V, "\tc.outputPosSlice[DIMO_OUTPUT] = k\n\treturn", "\tc.outputPosSlice[DIMO_CELL] = k\n\treturn")], "accept",
      "KNOWN GAP, as for the inline form: a view that is only HANDED TO THE KERNEL is not judged by the closure-level facts (C04 frame oracle / race detector)")
    b.report("run facts (owrunfacts)")
    return b.failed


# ---------------------------------------------------------------------------------------------------------------

def lockgraph(work):
    exe = _build("owlockgraph", os.path.join(work, "owlockgraph"))

    def judge(tree):
        r = core.run([exe, "-json", os.path.join(tree, "io")])
        if r.returncode != 0:
            return "EXTRACTOR FAILED " + (r.stderr or "")[-200:]
        bad, _ = explain(json.loads(r.stdout))
        return ("rejected %d | %s" % (len(bad), bad[0][:130])) if bad else "accepted"

    b = Battery(work)
    b.base("plain", None)
    b.base("helpers", os.path.join(H3, "C08-1", "patch.diff"))
    m = lambda base, name, edits, expect: b.mutant(base, name, edits, expect, judge)
    F, U = "io/gen-hdf5.go", "io/hdf5_util.go"
    load = "func (h H5RefFloat64) Load() (data.NDFloat64, error) {\n\trLockHDF5(h.Filename)\n\tdefer rUnlockHDF5(h.Filename)\n"
    write = "func (h H5RefFloat64) Write(data data.NDFloat64) error {\n\tlockHDF5(h.Filename)\n\tdefer unlockHDF5(h.Filename)\n"
    m("plain", "unchanged tree", [], "accept")
    m("plain", "dropped `defer rUnlock`", [(F, load, load.replace("\tdefer rUnlockHDF5(h.Filename)\n", ""))], "reject")
    m("plain", "`rLock` where `lock` is needed", [(F, write, write.replace("lockHDF5", "rLockHDF5").replace("unrLockHDF5", "rUnlockHDF5"))], "reject")
    m("plain", "no lock at all in one function", [(F, write, "func (h H5RefFloat64) Write(data data.NDFloat64) error {\n")], "reject")
    hl = "\twithReadLock(h.Filename, func() {\n\t\tresult, err = h.load()\n\t})\n"
    hw = "\twithWriteLock(h.Filename, func() {\n\t\terr = h.write(data)\n\t})\n"
    hp = "func withReadLock(fn string, body func()) {\n\trLockHDF5(fn)\n\tdefer rUnlockHDF5(fn)\n\tbody()\n}"
    m("helpers", "harmless C08-1 as stored", [], "accept")
    m("helpers", "closure stored, called after the helper returned", [(F, hl, "\tvar pending func()\n\twithReadLock(h.Filename, func() {\n\t\tpending = func() { result, err = h.load() }\n\t})\n\tpending()\n")], "reject")
    m("helpers", "literal in a variable, then passed", [(F, hl, "\tb := func() {\n\t\tresult, err = h.load()\n\t}\n\twithReadLock(h.Filename, b)\n")], "reject")
    m("helpers", "helper unlocks before the body", [(U, hp, "func withReadLock(fn string, body func()) {\n\trLockHDF5(fn)\n\trUnlockHDF5(fn)\n\tbody()\n}")], "reject")
    m("helpers", "helper: deferred unlock AND early unlock", [(U, hp, "func withReadLock(fn string, body func()) {\n\trLockHDF5(fn)\n\tdefer rUnlockHDF5(fn)\n\trUnlockHDF5(fn)\n\tbody()\n\trLockHDF5(fn)\n}")], "reject")
    m("helpers", "helper without a lock", [(U, hp, "func withReadLock(fn string, body func()) {\n\tbody()\n}")], "reject")
    m("helpers", "`rLock` helper around a mutating body", [(F, hw, hw.replace("withWriteLock", "withReadLock"))], "reject")
    m("helpers", "helper stores the body", [(U, hp, "var saved func()\nfunc withReadLock(fn string, body func()) {\n\trLockHDF5(fn)\n\tdefer rUnlockHDF5(fn)\n\tsaved = body\n}\nfunc RunSaved() { saved() }")], "reject")
    m("helpers", "helper starts the body with go", [(U, hp, hp.replace("\tbody()", "\tgo body()"))], "reject")
    m("helpers", "helper defers the body", [(U, hp, hp.replace("\tbody()", "\tdefer body()"))], "reject")
    m("helpers", "helper hands the body on", [(U, hp, hp.replace("\tbody()", "\tlater(body)") + "\nvar q []func()\nfunc later(f func()) { q = append(q, f) }\n")], "reject")
    m("helpers", "helper calls the body inside a stored literal", [(U, hp, hp.replace("\tbody()", "\tsaved = func() { body() }") + "\nvar saved func()\n")], "reject")
    m("helpers", "body run without the helper", [(F, hl, "\tfunc() {\n\t\tresult, err = h.load()\n\t}()\n")], "reject")
    m("helpers", "wrapper calls the unexported body directly", [(F, hl, "\tresult, err = h.load()\n")], "reject")
    m("helpers", "closure releases the lock itself", [(F, hl, hl.replace("\t\tresult,", "\t\trUnlockHDF5(h.Filename)\n\t\tresult,"))], "reject")
    m("helpers", "`go withReadLock(…)` (lock still held by the helper)", [(F, hl, hl.replace("\twithReadLock", "\tgo withReadLock"))], "accept")
    b.report("lock graph (owlockgraph)")
    return b.failed


def main(argv):
    which = argv[0] if argv else "both"
    work = tempfile.mkdtemp(prefix="owstructmut-")
    failed = 0
    try:
        if which in ("runfacts", "both"):
            os.makedirs(os.path.join(work, "rf"))
            failed += runfacts(os.path.join(work, "rf"))
        if which in ("lockgraph", "both"):
            os.makedirs(os.path.join(work, "lg"))
            failed += lockgraph(os.path.join(work, "lg"))
    finally:
        shutil.rmtree(work, ignore_errors=True)
    sys.exit(1 if failed else 0)


if __name__ == "__main__":
    main(sys.argv[1:])
