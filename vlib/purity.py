"""Structural support for C04 / C14 from the regenerated run facts (stdlib only).

purity_step(rules)(check, ctx) — builds harness/cmd/owrunfacts (the go/ast extractor of C05's tie A), runs it on the CURRENT
tree and reports the violations of the given structural rules as proof-obligation problems AND as oracle failures (the offending
statement is the failing input). It does not touch lean/OW/Gen/RunFacts.lean (that file belongs to C05's own pre-step).

Why here as well as in C05: a kernel (or a function it calls) that writes a package-level variable, or calls a method of one
(a cache, a sync.Map, a pool), keeps information between cells, calls and model objects. Whether a sampled run shows it depends on
sizes and on goroutine timing (e.g. a scratch buffer shared by the per-cell goroutines only corrupts results when two long cells
overlap), so the behavioural families of C04 (N cells = N single-cell runs) and C14 (no information survives in package-level
variables) can miss it; the structural fact cannot.
"""
import json
import os
import time

from vlib import core
from vlib.core import GOENV, Internal
from vlib.c05 import build_owrunfacts, _repo, race_probe, _probe_families

# "cell-coverage": a worker pool whose channel of cell indices is not provably filled with exactly 0..N-1 / closed / drained;
# "unsupported": a construct in the closure (or in a function it calls with something shared) that the extractor does not follow —
# the footprint of that site is then not established
CELL_RULES = ("callee-global-write", "shared-write", "shared-loc", "shared-arg", "loop-var", "join", "cell-coverage", "unsupported")
PURITY_RULES = ("callee-global-write",)


def purity_step(rules, tag):
    def step(check, ctx):
        t0 = time.time()
        exe = build_owrunfacts(ctx)
        js = os.path.join(ctx["workdir"], "runfacts-%s.json" % tag)
        r = core.run([exe, "-json", js, "-lean", os.path.join(ctx["workdir"], "RunFacts-%s.lean" % tag), _repo()], env=GOENV)
        if r.returncode != 0:
            raise Internal("owrunfacts failed:\n" + (r.stderr or "")[-3000:])
        facts = json.load(open(js))
        problems = []
        hits = [v for v in facts["violations"] if v["rule"] in rules]
        for v in hits:
            # a broken structural obligation, not a failing input (see vlib/c05.py facts_step); the race probe looks for one
            name = "structural rule %s violated in %s" % (v["rule"], v["file"])
            problems.append({"kind": "proof-obligation", "name": name, "detail": v["detail"]})
        if hits:
            # the real code may now crash the harness generator itself (a goroutine panic cannot be recovered): such a family is
            # dropped from this run and its crash recorded as a failing input, instead of ending as an internal error
            _probe_families(check, ctx)
            race_probe(ctx, hits, tag)
        ctx["info"]["runfacts_" + tag] = {
            "rules": list(rules), "sites": len(facts["sites"]), "callees_scanned": sum(s["callees_scanned"] for s in facts["sites"]),
            "violations": len(hits), "extract_errors": facts["errors"], "seconds": round(time.time() - t0, 2)}
        ctx["info"].setdefault("samples", []).append(
            "run facts (%s): %d goroutine sites, %d callees scanned for writes to / method calls on package-level variables, %d violation(s) of %s"
            % (tag, len(facts["sites"]), sum(s["callees_scanned"] for s in facts["sites"]), len(hits), ",".join(rules)))
        return problems
    return step
