"""Syntactic tie between the hand-written models of the integer / index code, the hyperslab arithmetic and util/fn, and the
CURRENT Go source (stdlib only). The counterpart of vlib/gentie.py for code that is not a time-stepping kernel.

genidx_step(check, ctx) — a pre-step for vlib.core.Check:

  1. builds harness/cmd/owtransidx (go/parser + go/ast only) and runs it on core.REPO: every function of its table (and the
     functions of the module they call) is translated to a Lean definition `OW.Gen.Idx.<pkg>.<Func>` in the monad
     `Except String`, and lean/OW/Gen/Index.lean is rewritten if (and only if) the text changed;
  2. `lake build OW.Props.GenTieIndex` — the theorems `gen_eq_<Func>`: regenerated definition = the hand-written model function
     the theorems of C01 / C02 / C03 / C08 / C18 are stated about (OW/Nd/Ints.lean, OW/Nd/View.lean, OW/Sim/H5.lean,
     OW/Util/Piecewise.lean, OW/Util/FindRoot.lean);
  3. a theorem that no longer checks is returned as a problem
         {"kind": "proof-obligation", "name": "gen_eq_<Func> no longer checks (source of <Func> changed)", "detail": …}
     (never raised as an internal error): the orchestrator then lets the behavioural correspondence and the oracle decide,
     exactly as for any other broken obligation. Only the theorems of the calling check's property are returned (TIES
     below); failures of other properties' functions are listed in ctx["info"]["genidx_other_failures"].

  ctx["info"]["genidx_functions"]     Go functions translated AND tied by a theorem that checks
  ctx["info"]["genidx_unsupported"]   {goFunc: "unsupported: <construct> at file:line"}
  ctx["info"]["genidx_assumptions"]   {goFunc: [...]} what the translation of a tied function assumes (in-place parameters, aliasing, …)
  ctx["info"]["genidx_translated_without_theorem"]  functions pulled in as callees that no theorem ties
  ctx["info"]["genidx"]               timing, whether the generated file changed, axioms of the gen_eq_* theorems

Steps 1–2 run under the lake lock, because OW/Gen/Index.lean is shared between concurrent runs (which may look at different
trees via OW_REPO); the file always reflects the tree of the LAST run.
"""
import json
import os
import re
import time

from vlib import core
from vlib.core import Internal, GOENV, HARNESS, LEAN, BUILD

GEN_LEAN = os.path.join(LEAN, "OW", "Gen", "Index.lean")
TIE_LEAN = os.path.join(LEAN, "OW", "Props", "GenTieIndex.lean")
MODULES = ["OW.Props.GenTieIndex"]

# theorem of OW/Props/GenTieIndex.lean → (Go functions it ties (names of the translator's report), properties whose
# check should report it)
IDX = ["C01", "C02", "C03"]
TIES = {
    "gen_eq_Product": (["data.Product"], ["C02", "C03"]),
    "gen_eq_dotProduct": (["data.dotProduct"], IDX),
    "gen_eq_Multiply": (["data.Multiply"], IDX),
    "gen_eq_decrement": (["data.decrement"], ["C02"]),
    "gen_eq_IDivMod": (["data.IDivMod"], ["C02", "C03"]),
    "gen_eq_Increment": (["data.Increment"], ["C02", "C03"]),
    "gen_eq_max": (["data.max"], ["C02"]),
    "gen_eq_Maximum": (["data.Maximum"], ["C02"]),
    "gen_eq_Argmax": (["data.Argmax"], ["C02"]),
    "gen_eq_Offsets": (["data.Offsets"], IDX),
    "gen_eq_Uniform": (["slice.Uniform"], IDX),
    "gen_eq_Ones": (["slice.Ones"], ["C02", "C03"]),
    "gen_eq_Index": (["data.NdArrayTypeCommon.Index"], IDX),
    "gen_eq_Contiguous": (["data.NdArrayTypeCommon.Contiguous"], ["C02", "C03"]),
    "gen_eq_SliceInto": (["data.NdArrayTypeCommon.SliceInto"], IDX),
    "gen_eq_Len": (["data.NdArrayTypeCommon.Len"], IDX),
    "gen_eq_Len1": (["data.NdArrayTypeCommon.Len1"], IDX),
    "gen_eq_Len2": (["data.NdArrayTypeCommon.Len2"], IDX),
    "gen_eq_Len3": (["data.NdArrayTypeCommon.Len3"], IDX),
    "gen_eq_NDims": (["data.NdArrayTypeCommon.NDims"], IDX),
    "gen_eq_Shape": (["data.NdArrayTypeCommon.Shape"], IDX),
    "gen_eq_NewIndex": (["data.NdArrayTypeCommon.NewIndex"], IDX),
    "gen_eq_MinInt": (["m.MinInt"], ["C08"]),
    "gen_eq_MaxInt": (["m.MaxInt"], ["C08"]),
    "gen_eq_sliceSize": (["io.sliceSize"], ["C08"]),
    "gen_eq_makeHyperslab": (["io.makeHyperslab"], ["C08"]),
    "gen_eq_IntsToUints": (["conv.IntsToUints"], ["C08"]),
    "gen_eq_UintsToInts": (["conv.UintsToInts"], ["C08"]),
    "gen_eq_Equal": (["slice.Equal"], ["C08"]),
    "gen_eq_brackets": (["fn.brackets"], ["C18"]),
    "gen_eq_Piecewise": (["fn.Piecewise"], ["C18"]),
    "gen_eq_FindRoot": (["fn.FindRoot"], ["C18"]),
    "gen_eq_leapYear": (["functions.leapYear"], ["C19"]),
    "gen_eq_daysInMonth": (["functions.daysInMonth"], ["C19"]),
    "gen_eq_dayOfYear": (["functions._dayOfYear"], ["C19"]),
}


def _owner(name):
    """the TIES theorem a theorem of GenTieIndex.lean belongs to (itself, or the longest TIES name it extends with `_…`)"""
    if name in TIES:
        return name
    best = None
    for t in TIES:
        if name and name.startswith(t + "_") and (best is None or len(t) > len(best)):
            best = t
    return best


def _theorem_lines(path):
    """[(first line, name)] of the theorems of a Lean file, in order; the first line is that of the doc comment when there
    is one (Lean reports some errors of a declaration at its very beginning)."""
    out = []
    doc = None
    for i, line in enumerate(open(path, encoding="utf-8").read().splitlines(), 1):
        if line.startswith("/--"):
            doc = i
            continue
        m = re.match(r"\s*theorem\s+([^\s:({\[]+)", line)
        if m:
            out.append((doc or i, m.group(1)))
        if re.match(r"(theorem|def|abbrev|instance|macro|macro_rules|syntax|namespace|end|open|section|structure|#\w+)\b", line):
            doc = None
    return out


def _def_lines(path):
    """[(first line, name)] of the definitions / structures of the generated file"""
    out = []
    doc = None
    if os.path.exists(path):
        for i, line in enumerate(open(path, encoding="utf-8").read().splitlines(), 1):
            if line.startswith("/--"):
                doc = i
                continue
            m = re.match(r"(?:def|structure|inductive|abbrev)\s+([^\s:({\[]+)", line)
            if m:
                out.append((doc or i, m.group(1)))
                doc = None
    return out


def _enclosing(table, line):
    name = None
    for start, n in table:
        if start <= line:
            name = n
    return name


def _build_translator():
    exe = os.path.join(BUILD, "owtransidx")
    with core.Lock("gobuild-owtransidx"):
        tmp = exe + ".%d" % os.getpid()
        r = core.run(["go", "build", "-o", tmp, "./cmd/owtransidx"], cwd=HARNESS, env=GOENV)
        if r.returncode != 0:
            raise Internal("owtransidx does not build:\n" + (r.stderr or "")[-3000:])
        os.replace(tmp, exe)
    return exe


def run_genidx(ctx=None):
    """Steps 1–2. Returns (report of the translator, {theorem: [error texts]}, raw lake output, timings)."""
    t0 = time.time()
    exe = _build_translator()
    t1 = time.time()
    with core.Lock("lake"):
        r = core.run([exe, "-repo", core.REPO, GEN_LEAN], env=GOENV)
        if r.returncode != 0:
            raise Internal("owtransidx failed:\n" + (r.stderr or "")[-3000:])
        rep = json.loads(r.stdout)
        t2 = time.time()
        b = core.run(["lake", "build"] + MODULES, cwd=LEAN)
        t3 = time.time()
    out = (b.stdout or "") + (b.stderr or "")
    failed = {}
    if b.returncode != 0:
        tie_thms = _theorem_lines(TIE_LEAN)
        gen_defs = _def_lines(GEN_LEAN)
        by_lean = {}
        for thm, (funcs, _) in TIES.items():
            for f in funcs:
                by_lean.setdefault(f, []).append(thm)
        # a function that does not compile also breaks the theorems of its callers
        callers = {}
        for f in rep["functions"]:
            for c in f.get("calls") or []:
                callers.setdefault(c, []).append(f["go"])
        located = 0
        for m in re.finditer(r"error: (?:\./)*([^\s:]+\.lean):(\d+):(\d+): ([^\n]*(?:\n(?!\S*(?:error|warning|info):|[✖✔ℹ⚠]).*)*)", out):
            path, line, msg = m.group(1), int(m.group(2)), m.group(4).strip()
            thms = []
            if path.endswith("OW/Props/GenTieIndex.lean"):
                t = _owner(_enclosing(tie_thms, line))
                thms = [t] if t else []
            elif path.endswith("OW/Gen/Index.lean"):   # the generated definition itself does not elaborate
                d = _enclosing(gen_defs, line)
                seen, todo = set(), [d] if d else []
                while todo:
                    x = todo.pop()
                    if x in seen:
                        continue
                    seen.add(x)
                    thms += by_lean.get(x, [])
                    todo += callers.get(x, [])
                msg = "generated definition does not compile: " + msg
            for t in thms:
                located += 1
                failed.setdefault(t, []).append("%s:%d: %s" % (os.path.basename(path), line, msg[:600]))
        if not located:
            # The tie modules (or the hand-written lemma files they import, which mention regenerated names) do not build against the
            # regenerated definitions, and the error is not inside one theorem: e.g. a struct the lemmas name is no longer translatable
            # because the source gave it a new field. On the unchanged tree these modules build (setup, every run), so the cause is the
            # source change: EVERY tie of this translator is a broken obligation — a verdict, not an internal error.
            first = re.search(r"error: [^\n]*(?:\n(?!\S*(?:error|warning|info):).*){0,3}", out)
            why = "the tie modules do not build against the regenerated definitions: " + (first.group(0)[:600] if first else out[-600:])
            for t in TIES:
                failed.setdefault(t, []).append(why)
    return rep, failed, out, {"translator_build_s": round(t1 - t0, 2), "translate_s": round(t2 - t1, 2),
                              "lake_s": round(t3 - t2, 2)}


def genidx_step_all(check, ctx):
    """Like genidx_step, reporting every `gen_eq_*` of the index tie that no longer checks as a problem of the calling check."""
    return genidx_step(check, ctx, all_ties=True)


def genidx_step(check, ctx, only_property=None, all_ties=False):
    info = ctx["info"]
    t0 = time.time()
    rep, failed, out, timing = run_genidx(ctx)
    status = {f["go"]: f for f in rep["functions"]}
    unsupported = {g: "%s: %s" % (f["status"], f.get("reason", "")) for g, f in status.items() if f["status"] != "ok"}
    pid = only_property or getattr(check, "pid", None)
    mine = list(TIES) if all_ties else ([t for t, (_, ps) in TIES.items() if pid in ps] or list(TIES))
    known = {n for _, n in _theorem_lines(TIE_LEAN)}
    missing = [t for t in TIES if t not in known]
    if missing:
        raise Internal("vlib/genidx.py lists theorems that OW/Props/GenTieIndex.lean does not state: " + ", ".join(missing))

    problems, other = [], []
    for thm in TIES:
        if thm not in failed:
            continue
        funcs, props = TIES[thm]
        why = []
        for f in funcs:
            k = status.get(f)
            if k is None or k["status"] != "ok":
                why.append("%s is no longer translatable (%s)" % (f, unsupported.get(f, "not in the translator's table")))
        p = {"kind": "proof-obligation",
             "name": "%s no longer checks (source of %s changed)" % (thm, ", ".join(funcs)),
             "detail": {"theorem": "OW.Props.GenTieIndex." + thm, "go_functions": funcs, "properties": props,
                        "source": [dict(func=f, file=status[f]["file"], line=status[f].get("line")) for f in funcs if f in status],
                        "translator": why, "lean_errors": failed[thm][:6],
                        "meaning": "the definition regenerated from the current source is no longer the hand-written model function: "
                                   "the theorems about the model are not attached to this source until the model is updated "
                                   "(or the change is reverted); behavioural correspondence and the oracle decide whether the "
                                   "property is violated"}}
        (problems if thm in mine else other).append(p)

    tied = sorted({f for t, (fs, _) in TIES.items() if t not in failed for f in fs if status.get(f, {}).get("status") == "ok"})
    info["genidx_functions"] = tied
    info["genidx_unsupported"] = unsupported
    assumed = {g: f["assumptions"] for g, f in status.items() if f.get("assumptions") and f["status"] == "ok"}
    if assumed:
        info["genidx_assumptions"] = assumed
    untied = sorted(g for g, f in status.items() if f["status"] == "ok" and not any(g in fs for fs, _ in TIES.values()))
    if untied:
        info["genidx_translated_without_theorem"] = untied
    if other:
        info["genidx_other_failures"] = [p["name"] for p in other]
    g = {"generated_file": "lean/OW/Gen/Index.lean", "rewritten": rep["changed"], "repo": rep["repo"],
         "theorems_of_this_property": mine, "theorems_failed": sorted(failed), "timing": timing,
         "scope": "Go int is Lean Int (overflow not modelled); slices are lists (aliasing between arguments not modelled)"}
    if not failed:
        names = ["OW.Props.GenTieIndex." + t for t in TIES]
        res, bad, _ = core.audit_axioms("OW.Props.GenTieIndex", names, ctx["workdir"])
        g["axioms"] = sorted({a for n in names for a in res.get(n, [])})
        for n, why in bad:
            problems.append({"kind": "proof-obligation", "name": n, "detail": why})
    g["total_s"] = round(time.time() - t0, 2)
    info["genidx"] = g
    return problems


if __name__ == "__main__":   # stand-alone: python3 -m vlib.genidx [property]
    import sys
    import tempfile

    class _C:
        pid = sys.argv[1] if len(sys.argv) > 1 else None
    wd = tempfile.mkdtemp(prefix="genidx-")
    c = {"info": {}, "workdir": wd}
    try:
        ps = genidx_step(_C(), c)
    except Internal as e:
        print("INTERNAL-ERROR", e)
        sys.exit(2)
    print(json.dumps({"problems": ps, "info": c["info"]}, indent=1))
    sys.exit(1 if ps else 0)
