"""Self-test of the kernel tie (vlib/gentie.py): semantic mutations of every translated kernel function (and of the helper
functions next to it) must break a `gen_eq_*` theorem; harmless rewrites must not.

    python3 -m vlib.gentie_mutations [-k N] [-list] [name-prefix ...]     e.g.  python3 -m vlib.gentie_mutations muskingum H

The mutants are GENERATED from the source: in every function of a file that holds a tied kernel (the generated wrappers
`generated_*.go` excluded) up to N (default 2) single-token changes on different lines —
    a - b ↦ a + b      a * b ↦ a / b      a < b ↦ a <= b      a > b ↦ a >= b      a + b ↦ a - b      a / b ↦ a * b
(lines that only print or comment are skipped; a mutant that does not compile is skipped). A mutant in a function that no tied
kernel reaches gives `no alarm`: such functions are listed in UNREACHED below (dead code of the repository).
The HARMLESS entries are hand-written behaviour-preserving rewrites (hoisting, un-hoisting, helper extraction, switch for
if-chains, loops on the index vector, …): each must give `no alarm`.

Works on a scratch copy of /repo (removed afterwards); only the translator and `lake build` of the tie modules are run
(about 30 s per entry). lean/OW/Gen/Kernels.lean is regenerated from /repo at the end.
"""
import json
import os
import re
import shutil
import subprocess
import sys

# functions in the files of tied kernels that no tied kernel calls (a mutant there cannot break a tie)
UNREACHED = {
    "models/routing/lag.go": ("packLagStates", "extractLagStates", "initLag"),          # state (un)packing of the generated wrapper
    "models/rr/gr4j.go": ("initGR4J", "extractGR4JStates", "packGR4JStates"),            # idem
}

OPS = [(r"(?<=[\w\)\]]) - (?=[\w\(])", " + "), (r"(?<=[\w\)\]]) \* (?=[\w\(])", " / "), (r"(?<=[\w\)\]]) < (?=[\w\(])", " <= "),
       (r"(?<=[\w\)\]]) > (?=[\w\(])", " >= "), (r"(?<=[\w\)\]]) \+ (?=[\w\(])", " - "), (r"(?<=[\w\)\]]) / (?=[\w\(])", " * "),
       (r"(?<=[\w\)\]])-(?=[\w\(])", "+"), (r"(?<=[\w\)\]])\*(?=[\w\(])", "/")]

GR4J_SHIFT9 = '\t\tfor i := 1; i < n1; i++ {\n\t\t\tq9State[i-1] = q9State[i]\n\t\t}\n\t\tq9State[n1-1] = 0.0\n'
GR4J_SHIFT1 = '\t\tfor i := 1; i < n2; i++ {\n\t\t\tq1State[i-1] = q1State[i]\n\t\t}\n\t\tq1State[n2-1] = 0.0\n'
GR4J_ADVANCE = ('func gr4j(', 'func gr4jAdvance(state []float64, n int) {\n\tfor i := 1; i < n; i++ {\n\t\tstate[i-1] = state[i]\n\t}\n\tstate[n-1] = 0.0\n}\n\nfunc gr4j(')
CLIMATE_LOOP = ('\tfor i := 0; i < 40; i++ { // max 40 attempts to resolve\n', '\tfor remaining := 40; remaining > 0; remaining-- {\n',
                '\t\tif math.Abs(dx) < acc {\n\t\t\tbreak // convergence found\n\t\t}\n', '\t\tif math.Abs(dx) < acc {\n\t\t\treturn rtb\n\t\t}\n')
DATES_SETS = '\t\tdayOfYear.Set(idx, float64(_dayOfYear(d, m, y)))\n\t\tdate.Set(idx, float64(d))\n\t\tmonth.Set(idx, float64(m))\n\t\tyear.Set(idx, float64(y))\n'
WRITE_DATE = ('func dateGenerator(', 'func writeDate(idx []int, d, m, y int, date, month, year, dayOfYear data.ND1Float64) {\n\tdoy := _dayOfYear(d, m, y)\n'
              '\tdayOfYear.Set(idx, float64(doy))\n\tdate.Set(idx, float64(d))\n\tmonth.Set(idx, float64(m))\n\tyear.Set(idx, float64(y))\n}\n\nfunc dateGenerator(')

# (id, file, old, new): behaviour-preserving rewrites
HARMLESS = [
 ('H01 muskingum hoisted temporary', 'models/routing/muskingum.go', 'denom := (2*k*(1-x) + deltaT)', 'k1x2 := 2*k*(1-x)\n\tdenom := (k1x2 + deltaT)'),
 ('H02 muskingum coefficients moved into the loop', 'models/routing/muskingum.go',
  '\ta3 := (2*k*(1-x) - deltaT) / denom\n\n\tfor i := 0; i < nDays; i++ {\n\t\tidx[0] = i\n',
  '\n\tfor i := 0; i < nDays; i++ {\n\t\tidx[0] = i\n\t\ta3 := (2*k*(1-x) - deltaT) / denom\n'),
 ('H03 fixedPartition hoisted 1-fraction', 'models/conversion/fixed_partition.go',
  '\tidx := []int{0}\n\n\tfor i := 0; i < nDays; i++ {\n\t\tidx[0] = i\n\t\tincoming := input.Get(idx)\n\t\toutput1.Set(idx, incoming*fraction)\n\t\toutput2.Set(idx, incoming*(1-fraction))',
  '\tidx := []int{0}\n\trest := 1 - fraction\n\n\tfor i := 0; i < nDays; i++ {\n\t\tidx[0] = i\n\t\tincoming := input.Get(idx)\n\t\toutput1.Set(idx, incoming*fraction)\n\t\toutput2.Set(idx, incoming*rest)'),
 ('H04 depthToRate loop on the index vector', 'models/conversion/depthtorate.go',
  '\tidx := []int{0}\n\n\tfor i := 0; i < nDays; i++ {\n\t\tidx[0] = i\n', '\n\tfor idx := []int{0}; idx[0] < nDays; idx[0]++ {\n'),
 ('H05 surm un-hoisted fperv', 'models/rr/surm.go', 'baseflow = baseflow * fperv', 'baseflow = baseflow * (1 - fimp)'),
 ('H06 simhyd hoisted impervious fraction', 'models/rr/simhyd.go', 'eventRunoff := (1-perviousFraction)*imperviousRunoff',
  'impFrac := 1 - perviousFraction\n\t\teventRunoff := impFrac*imperviousRunoff'),
 ('H07 sediment trapping: switch for if', 'models/storage/dissolved_decay.go',
  '\t\tif outflowRate < bankFullFlow {\n\t\t\tdailyDecayedConstituentLoad = storedMass\n\t\t\tavailLoadForOutflow = upstreamFlowMass\n\t\t} else {',
  '\t\tswitch {\n\t\tcase outflowRate < bankFullFlow:\n\t\t\tdailyDecayedConstituentLoad = storedMass\n\t\t\tavailLoadForOutflow = upstreamFlowMass\n\t\tdefault:'),
 ('H08 lumped constituent: nil tests hoisted into booleans', 'models/routing/lumpedconstituent.go',
  '\t\tif lateralLoads != nil {\n\t\t\tlateralLoad = lateralLoads.Get(idx)', '\t\tif hasLateral {\n\t\t\tlateralLoad = lateralLoads.Get(idx)'),
 ('H09 bank erosion: helper extracted', 'models/generation/bank_erosion.go',
  'BankErosion_TperDay := (meanAnnual * LinkDischargeFactor) / rough.DAYS_PER_YEAR', 'BankErosion_TperDay := tonnesPerDay(meanAnnual, LinkDischargeFactor)'),
 # work package R3: helpers that write into a slice parameter, copy(), range with an index, variables assigned before they are read,
 # count-down loops / return in a bounded loop, procedures that write series, re-indexed loops
 ('H10 gr4j: shift loop moved into a helper that writes its slice parameter', 'models/rr/gr4j.go', GR4J_SHIFT9, '\t\tgr4jAdvance(q9State, n1)\n'),
 ('H11 gr4j: shift loop written with copy()', 'models/rr/gr4j.go', GR4J_SHIFT1, '\t\tcopy(q1State[:n2-1], q1State[1:n2])\n\t\tq1State[n2-1] = 0.0\n'),
 ('H12 gr4j: convolution loop as a range loop with index and value', 'models/rr/gr4j.go',
  '\t\tfor i := 0; i < n1; i++ {\n\t\t\tq9State[i] = q9State[i] + (Pr * 0.9 * UH1[i])', '\t\tfor i, u := range UH1 {\n\t\t\tq9State[i] = q9State[i] + (Pr * 0.9 * u)'),
 ('H13 gr4j: a function-level accumulator declared at its first assignment in the loop instead', 'models/rr/gr4j.go',
  '\tvar Perc float64\n', ''),
 ('H14 climate: bisection counts down and returns from the loop', 'models/climate/climate_variables.go', CLIMATE_LOOP[0], CLIMATE_LOOP[1]),
 ('H15 dates: the four Set calls moved into a procedure', 'models/functions/dates.go', DATES_SETS, '\t\twriteDate(idx, d, m, y, date, month, year, dayOfYear)\n'),
 ('H16 lag: delayed-copy loop over the source index', 'models/routing/lag.go',
  '\tfor i := lagSteps; i < outflow.Len1(); i++ {\n\t\tidx[0] = i\n\t\tidxInflow[0] = i - lagSteps\n',
  '\tfor src := 0; src+lagSteps < outflow.Len1(); src++ {\n\t\tidx[0] = src + lagSteps\n\t\tidxInflow[0] = src\n'),
]

# hand-written semantic mutants aimed at the normalisations of the translator (constant Booleans, values computed before the loop,
# nil tests): (id, file, old, new) — each must break a tie
MUTANTS = [
 ('X01 usleFine: the dead averaged-data branch switched on', 'models/generation/uslefine.go', 'useAvModel := false', 'useAvModel := true'),
 ('X02 storage: demand auto-adjustment switched on', 'models/storage/storage.go', 'autoAdjustDemand := false', 'autoAdjustDemand := true'),
 ('X03 muskingum: coefficient a3 with the wrong sign (before the loop)', 'models/routing/muskingum.go', 'a3 := (2*k*(1-x) - deltaT) / denom', 'a3 := (2*k*(1-x) + deltaT) / denom'),
 ('X04 storageRouting: snapping threshold of the bias (before the loop)', 'models/routing/storage_routing.go', 'if math.Abs(bias) < 0.001 {', 'if math.Abs(bias) < 0.01 {'),
 ('X05 lumped constituent: lateral load ignored although present', 'models/routing/lumpedconstituent.go', '\t\tif lateralLoads != nil {\n\t\t\tlateralLoad = lateralLoads.Get(idx)\n\t\t}\n', ''),
 ('X06 surm: field capacity from the wrong parameter (before the loop)', 'models/rr/surm.go', 'fieldCapacity := fcFrac * smax', 'fieldCapacity := fcFrac * sq'),
 ('X07 fine sediment: maximum storage without the bulk density (before the loop)', 'models/routing/instream_fine_sediment.go', '* linkArea * sedBulkDensity *', '* linkArea *'),
 ('X08 climate: barometric pressure at twice the elevation (before the loop)', 'models/climate/climate_variables.go', 'pa := barometricPressure(elevation)', 'pa := barometricPressure(2 * elevation)'),
 # aimed at the normalisations of work package R3
 ('X09 gr4j: Ps is no longer reset every day (it now carries a value between iterations)', 'models/rr/gr4j.go', '\t\tPs = 0.0\n\t\tEs = 0.0\n', '\t\tEs = 0.0\n'),
 ('X10 gr4j: the shift helper is called with the length of the other buffer', 'models/rr/gr4j.go', GR4J_SHIFT9, '\t\tgr4jAdvance(q9State, n2)\n'),
 ('X11 gr4j: copy() from the wrong offset', 'models/rr/gr4j.go', GR4J_SHIFT1, '\t\tcopy(q1State[:n2-1], q1State[0:n2])\n\t\tq1State[n2-1] = 0.0\n'),
 ('X12 gr4j: range loop over the ordinates of the other hydrograph', 'models/rr/gr4j.go',
  '\t\tfor i := 0; i < n1; i++ {\n\t\t\tq9State[i] = q9State[i] + (Pr * 0.9 * UH1[i])', '\t\tfor i, u := range UH2 {\n\t\t\tq9State[i] = q9State[i] + (Pr * 0.9 * u)'),
 ('X13 climate: count-down bisection with 39 passes', 'models/climate/climate_variables.go', CLIMATE_LOOP[0], '\tfor remaining := 40; remaining > 1; remaining-- {\n'),
 ('X14 climate: return in the loop returns the mid point', 'models/climate/climate_variables.go', CLIMATE_LOOP[2], '\t\tif math.Abs(dx) < acc {\n\t\t\treturn xmid\n\t\t}\n'),
 ('X15 dates: the procedure writes the month into the date series', 'models/functions/dates.go', DATES_SETS, '\t\twriteDate(idx, m, d, y, date, month, year, dayOfYear)\n'),
 ('X16 lag: re-indexed loop runs one step too far', 'models/routing/lag.go',
  '\tfor i := lagSteps; i < outflow.Len1(); i++ {\n\t\tidx[0] = i\n\t\tidxInflow[0] = i - lagSteps\n',
  '\tfor src := 0; src+lagSteps <= outflow.Len1(); src++ {\n\t\tidx[0] = src + lagSteps\n\t\tidxInflow[0] = src\n'),
 ('X17 lag: re-indexed loop reads one element later', 'models/routing/lag.go',
  '\tfor i := lagSteps; i < outflow.Len1(); i++ {\n\t\tidx[0] = i\n\t\tidxInflow[0] = i - lagSteps\n',
  '\tfor src := 0; src+lagSteps < outflow.Len1(); src++ {\n\t\tidx[0] = src + lagSteps\n\t\tidxInflow[0] = src + 1\n'),
]

# extra text that a HARMLESS entry needs elsewhere in its file: (id prefix) -> (old, new)
HARMLESS_EXTRA = {
 'H10': GR4J_ADVANCE, 'X10': GR4J_ADVANCE,
 'H13': ('\t\tPerc = 0.0\n', '\t\tPerc := 0.0\n'),
 'H14': (CLIMATE_LOOP[2], CLIMATE_LOOP[3]),
 'H15': WRITE_DATE, 'X15': WRITE_DATE,
 'H08': ('\tnDays := inflowLoads.Len1()\n', '\tnDays := inflowLoads.Len1()\n\thasLateral := lateralLoads != nil\n'),
 'H09': ('func bankErosion(', 'func tonnesPerDay(meanAnnual, factor float64) float64 {\n\treturn (meanAnnual * factor) / rough.DAYS_PER_YEAR\n}\n\nfunc bankErosion('),
}


def functions(text):
    """[(name, first line index, last line index)] of the top-level functions of a Go file (the closing brace in column 0)"""
    lines = text.split("\n")
    out = []
    i = 0
    while i < len(lines):
        m = re.match(r"func (?:\([^)]*\) )?(\w+)\(", lines[i])
        if m:
            j = i
            while j < len(lines) and lines[j] != "}":
                j += 1
            out.append((m.group(1), i, j))
            i = j
        i += 1
    return out


def mutants(text, per_func):
    lines = text.split("\n")
    res = []
    for name, a, b in functions(text):
        # the body starts after the line that ends the signature
        s = a
        while s <= b and not lines[s].rstrip().endswith("{"):
            s += 1
        cands = []
        in_comment = False
        for n in range(s + 1, b):
            l = lines[n]
            st = l.strip()
            if in_comment:
                if "*/" in st:
                    in_comment = False
                continue
            if st.startswith("/*"):
                in_comment = "*/" not in st
                continue
            if not st or st.startswith("//") or "fmt.Print" in st or "panic(" in st or st.startswith("for ") or "errors.New" in st:
                continue
            code = l.split("//")[0]
            if st.startswith("if ") and st.endswith("{"):   # an `if` with an empty body (only comments): its condition has no effect
                m2 = n + 1
                while m2 < b and (not lines[m2].strip() or lines[m2].strip().startswith("//")):
                    m2 += 1
                if lines[m2].strip() == "}":
                    continue
            for pat, rep in OPS:
                m = re.search(pat, code)
                if m:
                    cands.append((n, code[:m.start()] + rep + code[m.end():] + l[len(code):]))
                    break
        if not cands:
            continue
        picks = [cands[0]]
        if per_func > 1 and len(cands) > 1:
            picks.append(cands[-1])
        if per_func > 2 and len(cands) > 2:
            picks.append(cands[len(cands) // 2])
        for n, new in picks[:per_func]:
            res.append(("%s:%d" % (name, n + 1), n, new))
    return res


def main(argv):
    per_func, only_list, sel = 2, False, []
    it = iter(argv)
    for a in it:
        if a == "-k":
            per_func = int(next(it))
        elif a == "-list":
            only_list = True
        else:
            sel.append(a)
    verif = os.path.dirname(os.path.dirname(os.path.abspath(__file__)))
    sys.path.insert(0, verif)
    from vlib import gentie
    src = os.environ.get("OW_REPO", "/repo")
    repo = "/tmp/repo-gentie-%d" % os.getpid()
    shutil.copytree(src, repo, symlinks=True, ignore=shutil.ignore_patterns(".git"))
    env = dict(os.environ, OW_REPO=repo, GOFLAGS="-mod=mod", GOPROXY="off", GOSUMDB="off", GOTOOLCHAIN="local")
    # the files of the tied kernels: from the translator's own report
    r = subprocess.run([sys.executable, "-m", "vlib.gentie"], cwd=verif, env=env, capture_output=True, text=True)
    try:
        base = json.loads(r.stdout)
    except Exception:
        print("the tie does not run on the unchanged tree:", (r.stdout + r.stderr)[-2000:])
        shutil.rmtree(repo, ignore_errors=True)
        return 2
    if base["problems"]:
        print("the tie FAILS on the unchanged tree:", [p["name"] for p in base["problems"]])
        shutil.rmtree(repo, ignore_errors=True)
        return 2
    files = set()
    for thm, (funcs, _) in gentie.TIES.items():
        pass
    rep = subprocess.run([os.path.join(verif, "build", "owtranslate"), "-repo", repo, "/dev/null"], capture_output=True, text=True, env=env)
    for k in json.loads(rep.stdout)["kernels"]:
        files.add(k["file"])
    bad = 0
    counts = {"mut": 0, "caught": 0, "skipped": 0}

    def run_one(label, kind, path, mod, orig, expect_alarm):
        nonlocal bad
        open(path, "w").write(mod)
        try:
            pkgdir = "./" + os.path.dirname(os.path.relpath(path, repo))
            if subprocess.run(["go", "vet", pkgdir], cwd=repo, env=env, capture_output=True).returncode != 0 and \
               subprocess.run(["go", "build", pkgdir], cwd=repo, env=env, capture_output=True).returncode != 0:
                counts["skipped"] += 1
                print("%-4s %-70s %-8s %s" % ("skip", label, kind, "does not compile"), flush=True)
                return
            r = subprocess.run([sys.executable, "-m", "vlib.gentie"], cwd=verif, env=env, capture_output=True, text=True)
            try:
                j = json.loads(r.stdout)
                failed = j["info"]["gentie"]["theorems_failed"]
                verdict = "FAILED: " + ",".join(failed) if failed else "no alarm"
            except Exception:
                verdict = "ERROR " + (r.stdout + r.stderr)[-400:]
            ok = verdict.startswith("FAILED") if expect_alarm else verdict == "no alarm"
            if kind == "mut":
                counts["mut"] += 1
                counts["caught"] += 1 if ok else 0
            bad += 0 if ok else 1
            print("%-4s %-70s %-8s %s" % ("ok" if ok else "BAD", label, kind, verdict), flush=True)
        finally:
            open(path, "w").write(orig)

    try:
        for f in sorted(files):
            path = os.path.join(repo, f)
            orig = open(path).read()
            for name, n, new in mutants(orig, per_func):
                label = "%s %s" % (f, name)
                fn = name.split(":")[0]
                if sel and not any(fn.startswith(x) for x in sel):
                    continue
                if only_list:
                    print(label, "|", orig.split("\n")[n].strip(), "=>", new.strip())
                    continue
                if fn in UNREACHED.get(f, ()):
                    continue
                lines = orig.split("\n")
                lines[n] = new
                run_one(label, "mut", path, "\n".join(lines), orig, True)
        for (mid, f, old, new) in MUTANTS:
            if sel and not any(mid.startswith(x) for x in sel):
                continue
            if only_list:
                continue
            path = os.path.join(repo, f)
            orig = open(path).read()
            if orig.count(old) != 1:
                print(mid, "SKIPPED: the source text of this entry is no longer there")
                continue
            mod = orig.replace(old, new)
            ex = HARMLESS_EXTRA.get(mid.split(" ")[0])
            if ex:
                if mod.count(ex[0]) != 1:
                    print(mid, "SKIPPED: the source text of this entry is no longer there")
                    continue
                mod = mod.replace(ex[0], ex[1])
            run_one(mid, "mut", path, mod, orig, True)
        for (hid, f, old, new) in HARMLESS:
            if sel and not any(hid.startswith(x) for x in sel):
                continue
            if only_list or old is None:
                continue
            path = os.path.join(repo, f)
            orig = open(path).read()
            if orig.count(old) != 1:
                print(hid, "SKIPPED: the source text of this entry is no longer there")
                continue
            mod = orig.replace(old, new)
            ex = HARMLESS_EXTRA.get(hid.split(" ")[0])
            if ex:
                if mod.count(ex[0]) != 1:
                    print(hid, "SKIPPED: the source text of this entry is no longer there")
                    continue
                mod = mod.replace(ex[0], ex[1])
            run_one(hid, "harmless", path, mod, orig, False)
    finally:
        shutil.rmtree(repo, ignore_errors=True)
        if not only_list:
            subprocess.run([sys.executable, "-m", "vlib.gentie"], cwd=verif, env=dict(env, OW_REPO=src), capture_output=True)
    if not only_list:
        print("mutants: %d, caught: %d, not compiling (skipped): %d, unexpected verdicts: %d" % (counts["mut"], counts["caught"], counts["skipped"], bad))
    return 1 if bad else 0


if __name__ == "__main__":
    sys.exit(main(sys.argv[1:]))
