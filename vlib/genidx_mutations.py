"""Self-test of the index tie (vlib/genidx.py): semantic mutations of every translated function must break its `gen_eq_*`
theorem, harmless rewrites (renamed locals, temporaries, reordered independent statements) must not.

    python3 -m vlib.genidx_mutations [ID-prefix ...]      e.g.  python3 -m vlib.genidx_mutations M24 H

Works on a scratch copy of /repo (removed afterwards); only the translator + `lake build OW.Props.GenTieIndex` are run
(about 2 s per entry), not the behavioural families — use `OW_REPO=<copy> ./bin/check Cxx` for the full verdict of one
mutation (the instantiations data/gen-*.go must then be mutated like the template data/arrays.go, otherwise the behaviour
is unchanged and the verdict is `no-failing-input-found`). lean/OW/Gen/Index.lean is regenerated from /repo at the end.
Expected: every `mut` entry FAILED (the theorem of the mutated function, and of its callers when it becomes untranslatable),
every `harmless` entry `no alarm` — except H17b, the documented limit (declarations of two loop-carried variables of the
SAME type swapped: the carried tuple changes).
"""
import json
import os
import shutil
import subprocess
import sys

# (id, file, old text, new text, kind)
MUT=[ # (id, file, old, new, kind)
 ('M01 Product init 0','data/sliceops.go','result := int(1)\n\tfor _, v := range ix','result := int(0)\n\tfor _, v := range ix','mut'),
 ('M02 dotProduct <=','data/sliceops.go','result := int(0)\n\tfor i := 0; i < len(lhs); i++','result := int(0)\n\tfor i := 0; i <= len(lhs); i++','mut'),
 ('M03 Multiply + for *','data/sliceops.go','result[i] = lhs[i] * rhs[i]','result[i] = lhs[i] + rhs[i]','mut'),
 ('M04 Increment >','data/sliceops.go','if vector[i] >= wrt[i]','if vector[i] > wrt[i]','mut'),
 ('M05 Argmax res=i','data/sliceops.go','res = i + 1','res = i','mut'),
 ('M06 Maximum [2:]','data/sliceops.go','for _, v := range vector[1:] {\n\t\tres = max','for _, v := range vector[2:] {\n\t\tres = max','mut'),
 ('M07 Offsets dims[i]','data/arraysint.go','res[i] = res[i+1] * dims[i+1]','res[i] = res[i+1] * dims[i]','mut'),
 ('M07b Offsets loop bound','data/arraysint.go','for i := len(dims) - 2; i >= 0; i--','for i := len(dims) - 2; i > 0; i--','mut'),
 ('M08 IDivMod swapped ops','data/arraysint.go','(numerator / denominators[i]) % modulator[i]','(numerator % denominators[i]) / modulator[i]','mut'),
 ('M09 Index Offset','data/arrays.go','result += loc[i] * nd.OffsetStep[i]','result += loc[i] * nd.Offset[i]','mut'),
 ('M10 Contiguous step>2','data/arrays.go','if nd.Step[i] > 1 {','if nd.Step[i] > 2 {','mut'),
 ('M10b Contiguous *= OriginalDims','data/arrays.go','contiguousOffset *= nd.Dims[i]','contiguousOffset *= nd.OriginalDims[i]','mut'),
 ('M10c Contiguous offset >=','data/arrays.go','if nd.Offset[i] > contiguousOffset {','if nd.Offset[i] >= contiguousOffset {','mut'),
 ('M11 SliceInto Multiply(step,step)','data/arrays.go','dest.Step = Multiply(nd.Step, step)','dest.Step = Multiply(step, step)','mut'),
 ('M11b SliceInto start from Offset (D1)','data/arrays.go','dest.Start = nd.Start + dotProduct(loc, nd.OffsetStep)','dest.Start = nd.Start + dotProduct(loc, nd.Offset)','mut'),
 ('M12 sliceSize floor (D12)','io/hdf5_util.go','(m.MinInt(size, slice[1])-m.MinInt(size, slice[0]))) + slice[2] - 1) / slice[2]','(m.MinInt(size, slice[1])-m.MinInt(size, slice[0])))) / slice[2]','mut'),
 ('M13 makeHyperslab count-1','io/hdf5_util.go','count[i] = uint(dims[i])','count[i] = uint(dims[i] - 1)','mut'),
 ('M13b makeHyperslab offset dim[1]','io/hdf5_util.go','offset[i] = uint(dim[0])','offset[i] = uint(dim[1])','mut'),
 ('M14 Uniform bound','util/slice/slice.go','for i := 0; i < ndims; i++','for i := 0; i < ndims-1; i++','mut'),
 ('M15 decrement -2','data/sliceops.go','result[i] = vector[i] - 1','result[i] = vector[i] - 2','mut'),
 ('M16 MaxInt returns b','util/m/gen-math.go','func MaxInt(a, b int) int {\n\tif a > b {\n\t\treturn a','func MaxInt(a, b int) int {\n\tif a > b {\n\t\treturn b','mut'),
 ('M17 Len OriginalDims','data/arrays.go','return nd.Dims[ax]','return nd.OriginalDims[ax]','mut'),
 ('M18 IntsToUints int(v)+1','conv/slices.go','result[i] = uint(v)','result[i] = uint(v + 1)','mut'),
 # harmless rewrites
 ('H01 rename Product result->acc','data/sliceops.go','result := int(1)\n\tfor _, v := range ix {\n\t\tresult *= v\n\t}\n\treturn result','acc := int(1)\n\tfor _, w := range ix {\n\t\tacc *= w\n\t}\n\treturn acc','harmless'),
 ('H02 rename Offsets res->strides','data/arraysint.go','res := make([]int, len(dims))\n\tres[len(dims)-1] = 1\n\tfor i := len(dims) - 2; i >= 0; i-- {\n\t\tres[i] = res[i+1] * dims[i+1]\n\t}\n\treturn res','strides := make([]int, len(dims))\n\tstrides[len(dims)-1] = 1\n\tfor k := len(dims) - 2; k >= 0; k-- {\n\t\tstrides[k] = strides[k+1] * dims[k+1]\n\t}\n\treturn strides','harmless'),
 ('H03 rename Contiguous locals','data/arrays.go',None,None,'harmless-fn'),
 ('H04 temporaries dotProduct','data/sliceops.go','result += lhs[i] * rhs[i]','a := lhs[i]\n\t\tb := rhs[i]\n\t\tprod := a * b\n\t\tresult += prod','harmless'),
 ('H05 temporary Index','data/arrays.go','result += loc[i] * nd.OffsetStep[i]','term := loc[i] * nd.OffsetStep[i]\n\t\tresult = result + term','harmless'),
 ('H06 temporary n in Offsets','data/arraysint.go','res := make([]int, len(dims))\n\tres[len(dims)-1] = 1\n\tfor i := len(dims) - 2; i >= 0; i--','n := len(dims)\n\tres := make([]int, n)\n\tres[n-1] = 1\n\tfor i := n - 2; i >= 0; i--','harmless'),
 ('H07 reorder SliceInto field writes','data/arrays.go','dest.OriginalDims = nd.OriginalDims\n\tdest.Dims = dims\n','dest.Dims = dims\n\tdest.OriginalDims = nd.OriginalDims\n','harmless'),
 ('H08 reorder makeHyperslab writes','io/hdf5_util.go','offset[i] = 0\n\t\t\tstride[i] = 1','stride[i] = 1\n\t\t\toffset[i] = 0','harmless'),
 ('H09 reorder Argmax assignments','data/sliceops.go','maxFound = v\n\t\t\tres = i + 1','res = i + 1\n\t\t\tmaxFound = v','harmless'),
 ('H10 temporaries sliceSize','io/hdf5_util.go','return (m.MaxInt(0, (m.MinInt(size, slice[1])-m.MinInt(size, slice[0]))) + slice[2] - 1) / slice[2]','hi := m.MinInt(size, slice[1])\n\tlo := m.MinInt(size, slice[0])\n\textent := m.MaxInt(0, (hi - lo))\n\treturn (extent + slice[2] - 1) / slice[2]','harmless'),
 ('H11 reorder Contiguous declarations (carried tuple order)','data/arrays.go','contiguousOffset := 1\n\tdimsMustBeOne := false\n','dimsMustBeOne := false\n\tcontiguousOffset := 1\n','harmless'),
 ('H12 Increment temporaries','data/sliceops.go','dims := len(wrt)\n\tfor i := (dims - 1); i >= 0; i--','n := len(wrt)\n\tlast := n - 1\n\tfor i := last; i >= 0; i--','harmless'),
 ('H13 makeHyperslab temporaries','io/hdf5_util.go','offset[i] = uint(dim[0])\n\t\t\tstride[i] = uint(dim[2])\n\t\t\tcount[i] = uint(sliceSize(dim, dims[i]))','start := dim[0]\n\t\t\toffset[i] = uint(start)\n\t\t\tst := dim[2]\n\t\t\tstride[i] = uint(st)\n\t\t\textent := dims[i]\n\t\t\tn := sliceSize(dim, extent)\n\t\t\tcount[i] = uint(n)','harmless'),
 ('M19 brackets >= to >','util/fn/piecewise.go','if valueAtJ >= x {','if valueAtJ > x {','mut'),
 ('M20 brackets loop start 0','util/fn/piecewise.go','for j = 1; j < n; j++','for j = 0; j < n; j++','mut'),
 ('M20b brackets loop bound <=','util/fn/piecewise.go','for j = 1; j < n; j++','for j = 1; j <= n; j++','mut'),
 ('M21 brackets i += 2','util/fn/piecewise.go','i += 1','i += 2','mut'),
 ('M22 Piecewise frac denominator','util/fn/piecewise.go','frac := (x-x0)/(x1-x0)','frac := (x-x0)/(x1-x)','mut'),
 ('M22b Piecewise y1+y0','util/fn/piecewise.go','y = y0 + frac * (y1-y0)','y = y0 + frac * (y1+y0)','mut'),
 ('M23 Piecewise x==x0','util/fn/piecewise.go','if x == x1 {','if x == x0 {','mut'),
 ('M23b Piecewise swapped ys index','util/fn/piecewise.go','idx[0] = i\n\ty0 := ys.Get(idx)\n\tidx[0] = j\n\ty1 := ys.Get(idx)','idx[0] = j\n\ty0 := ys.Get(idx)\n\tidx[0] = i\n\ty1 := ys.Get(idx)','mut'),
 ('M24 FindRoot halving 0.25','util/fn/root.go','halvingX := maxX - (maxX-minX)*0.5','halvingX := maxX - (maxX-minX)*0.25','mut'),
 ('M24b FindRoot bracket update >=','util/fn/root.go','if trial > minTrialX && trial <= maxTrialX {','if trial >= minTrialX && trial <= maxTrialX {','mut'),
 ('M24c FindRoot pick <','util/fn/root.go','if math.Abs(minTrialDelta) <= maxTrialDelta {','if math.Abs(minTrialDelta) < maxTrialDelta {','mut'),
 ('M24d FindRoot range check &&','util/fn/root.go','if minDelta > 0 || maxDelta < 0 {','if minDelta > 0 && maxDelta < 0 {','mut'),
 ('M24e FindRoot Illinois halving (seed C18-3)','util/fn/root.go','minTrialX = trial\n\t\t\t\t\tminTrialDelta = trialDelta','minTrialX = trial\n\t\t\t\t\tminTrialDelta = trialDelta * 0.5','mut'),
 ('M24f FindRoot secant swapped operands','util/fn/root.go','(maxX-minX)*maxDelta/(maxDelta-minDelta)','(maxX-minX)*maxDelta/(minDelta-maxDelta)','mut'),
 ('M24g FindRoot iteration bound <=','util/fn/root.go','iteration < maxIterations','iteration <= maxIterations','mut'),
 ('M24h FindRoot conv exit test','util/fn/root.go','if hitConvergenceLimit == len(trialXs) {','if hitConvergenceLimit == len(trialXs)-1 {','mut'),
 ('M24i FindRoot newton guard','util/fn/root.go','if newtonRaphsonX > minX && newtonRaphsonX < maxX {','if newtonRaphsonX > minX || newtonRaphsonX < maxX {','mut'),
 ('M25 leapYear %200','models/functions/dates.go','if y%100 != 0 {','if y%200 != 0 {','mut'),
 ('M25b leapYear 400 rule inverted','models/functions/dates.go','if y%400 == 0 {','if y%400 != 0 {','mut'),
 ('M25c leapYear y&7 (seed C19-1)','models/functions/dates.go','if y%400 == 0 {','if y&7 == 0 {','mut'),
 ('M26 daysInMonth month==3','models/functions/dates.go','if month == 2 {','if month == 3 {','mut'),
 ('M26b December 30 (seed C19-2)','models/functions/dates.go','31, 31, 30, 31, 30, 31}','31, 31, 30, 31, 30, 30}','mut'),
 ('M26c table patched at run time (seed C05-2)','models/functions/dates.go','\td := int(startDate)\n','\tDAYS_IN_MONTH[1] = 28\n\td := int(startDate)\n','mut'),
 ('M27 dayOfYear mi<=m','models/functions/dates.go','for mi := 1; mi < m; mi++','for mi := 1; mi <= m; mi++','mut'),
 ('M27b dayOfYear doy += d dropped','models/functions/dates.go','\tdoy += d\n\treturn doy','\treturn doy','mut'),
 ('M28 Equal rhs[0]','util/slice/slice.go','if lhs[i] != rhs[i] {','if lhs[i] != rhs[0] {','mut'),
 ('M28b Equal length test dropped','util/slice/slice.go','if len(lhs) != len(rhs) {\n\t\treturn false\n\t}\n','','mut'),
 ('H14 brackets rename valueAtJ','util/fn/piecewise.go','valueAtJ := xs.Get(idx)\n\t\tif valueAtJ >= x {','v := xs.Get(idx)\n\t\tif v >= x {','harmless'),
 ('H15 Piecewise temporaries','util/fn/piecewise.go','frac := (x-x0)/(x1-x0) // What if x1==x0?','dx := x1 - x0\n\tnum := x - x0\n\tfrac := num / dx','harmless'),
 ('H16 FindRoot reorder bracket write-back','util/fn/root.go','\t\tmaxX = maxTrialX\n\t\tmaxDelta = maxTrialDelta\n\n\t\tminX = minTrialX\n\t\tminDelta = minTrialDelta\n','\t\tminX = minTrialX\n\t\tminDelta = minTrialDelta\n\t\tmaxX = maxTrialX\n\t\tmaxDelta = maxTrialDelta\n','harmless'),
 ('H17 FindRoot rename + temporaries','util/fn/root.go','\t\t\ttrialDelta := fn(trial)\n\t\t\tif math.Abs(trialDelta) < tolerance {\n\t\t\t\tx = trial\n\t\t\t\tdelta = trialDelta\n\t\t\t\treturn\n\t\t\t}','\t\t\ttrialDelta := fn(trial)\n\t\t\tabsDelta := math.Abs(trialDelta)\n\t\t\tif absDelta < tolerance {\n\t\t\t\tdelta = trialDelta\n\t\t\t\tx = trial\n\t\t\t\treturn\n\t\t\t}','harmless'),
 ('H17b FindRoot reorder same-typed declarations (carried tuple order)','util/fn/root.go','\t\tvar minTrialX = minX\n\t\tvar minTrialDelta = minDelta\n\t\tvar maxTrialX = maxX\n\t\tvar maxTrialDelta = maxDelta\n','\t\tvar maxTrialX = maxX\n\t\tvar maxTrialDelta = maxDelta\n\t\tvar minTrialX = minX\n\t\tvar minTrialDelta = minDelta\n','harmless'),
 ('H18 leapYear temporary','models/functions/dates.go','if y%4 != 0 {','r4 := y % 4\n\tif r4 != 0 {','harmless'),
 ('H19 dayOfYear rename','models/functions/dates.go','doy := 0\n\tfor mi := 1; mi < m; mi++ {\n\t\tdoy += daysInMonth(mi, y)\n\t}\n\tdoy += d\n\treturn doy','total := 0\n\tfor k := 1; k < m; k++ {\n\t\ttotal += daysInMonth(k, y)\n\t}\n\ttotal += d\n\treturn total','harmless'),
 ('H20 Equal temporaries','util/slice/slice.go','if lhs[i] != rhs[i] {','l := lhs[i]\n\t\tr := rhs[i]\n\t\tif l != r {','harmless'),
 # loop forms, merged / inverted conditions, explicit comparisons for library min / max (absorbed since work package R1)
 ('H21 Index as a range loop with a hoisted field','data/arrays.go','\tresult := nd.Start\n\tfor i := 0; i < len(loc); i++ {\n\t\tresult += loc[i] * nd.OffsetStep[i]\n\t}','\tresult := nd.Start\n\toffsetStep := nd.OffsetStep\n\tfor i, l := range loc {\n\t\tresult += l * offsetStep[i]\n\t}','harmless'),
 ('H22 IntsToUints as an index loop','conv/slices.go','\tresult := make([]uint, len(ints))\n\tfor i, v := range ints {\n\t\tresult[i] = uint(v)\n\t}','\tn := len(ints)\n\tresult := make([]uint, n)\n\tfor i := 0; i < n; i++ {\n\t\tresult[i] = uint(ints[i])\n\t}','harmless'),
 ('H23 Increment with the test inverted','data/sliceops.go','\t\tif vector[i] >= wrt[i] {\n\t\t\tvector[i] = 0\n\t\t} else {\n\t\t\treturn\n\t\t}','\t\tif vector[i] < wrt[i] {\n\t\t\treturn\n\t\t}\n\t\tvector[i] = 0','harmless'),
 ('H24 Contiguous: three early returns merged into one condition','data/arrays.go','\t\tif nd.Dims[i] > 1 {\n\t\t\tif dimsMustBeOne {\n\t\t\t\treturn false\n\t\t\t}\n\n\t\t\tif nd.Step[i] > 1 {\n\t\t\t\treturn false\n\t\t\t}\n\n\t\t\tif nd.Offset[i] > contiguousOffset {\n\t\t\t\treturn false\n\t\t\t}\n','\t\tif nd.Dims[i] > 1 && (dimsMustBeOne || nd.Step[i] > 1 || nd.Offset[i] > contiguousOffset) {\n\t\t\treturn false\n','harmless'),
 ('H25 sliceSize with explicit comparisons','io/hdf5_util.go','\treturn (m.MaxInt(0, (m.MinInt(size, slice[1])-m.MinInt(size, slice[0]))) + slice[2] - 1) / slice[2]','\tstop := slice[1]\n\tif size < stop {\n\t\tstop = size\n\t}\n\tstart := slice[0]\n\tif size < start {\n\t\tstart = size\n\t}\n\tlength := stop - start\n\tif length < 0 {\n\t\tlength = 0\n\t}\n\tstep := slice[2]\n\treturn (length + step - 1) / step','harmless'),
 ('H26 daysInMonth as a switch','models/functions/dates.go',None,None,'harmless-patch:h3.diff'),
 # more semantic mutants of the functions whose proofs were made more flexible (they must still fail)
 ('M29 Increment inverted test wrong (<=)','data/sliceops.go','\t\tif vector[i] >= wrt[i] {\n\t\t\tvector[i] = 0\n\t\t} else {\n\t\t\treturn\n\t\t}','\t\tif vector[i] <= wrt[i] {\n\t\t\treturn\n\t\t}\n\t\tvector[i] = 0','mut'),
 ('M30 sliceSize clamps start to 0 instead of size','io/hdf5_util.go','m.MinInt(size, slice[0])','m.MinInt(0, slice[0])','mut'),
 ('M31 Contiguous merged condition drops the offset test','data/arrays.go','\t\t\tif nd.Offset[i] > contiguousOffset {\n\t\t\t\treturn false\n\t\t\t}\n','','mut'),
 ('M32 IntsToUints index loop starts at 1','conv/slices.go','\tfor i, v := range ints {\n\t\tresult[i] = uint(v)\n\t}','\tfor i := 1; i < len(ints); i++ {\n\t\tresult[i] = uint(ints[i])\n\t}','mut'),
 ('M33 Index range loop reads Offset','data/arrays.go','\tfor i := 0; i < len(loc); i++ {\n\t\tresult += loc[i] * nd.OffsetStep[i]\n\t}','\tfor i, l := range loc {\n\t\tresult += l * nd.Offset[i]\n\t}','mut'),
 ('M34 SliceInto inline loop multiplies by Offset of dest twice','data/arrays.go','dest.OffsetStep = Multiply(dest.Step, dest.Offset)','dest.OffsetStep = Multiply(dest.Offset, dest.Offset)','mut'),
 # work package R3: stored behaviour-preserving rewrites that the tie now absorbs (write-only locals removed, a fixed array with a
 # count for a slice built with append, spare capacity, parallel assignments, the iteration loop counting down, the trial loop's
 # bookkeeping reordered; brackets with the upper index alone; the Gregorian tests in another order) …
 ('H27 FindRoot: [3]float64 + count, write-only trialDeltas removed (h3/C11-3)','util/fn/root.go',None,None,'harmless-patch:h3/C11-3/patch.diff'),
 ('H28 FindRoot: count-down loop, make with capacity, parallel assignments, switch ladders (h3/C18-3)','util/fn/root.go',None,None,'harmless-patch:h3/C18-3/patch.diff'),
 ('H29 brackets: upper index alone; Piecewise: two index slices, early return first (h3/C13-1)','util/fn/piecewise.go',None,None,'harmless-patch:h3/C13-1/patch.diff'),
 ('H30 leapYear: tests ordered 400 / 100 / 4, merged month test (h3/C19-1)','models/functions/dates.go',None,None,'harmless-patch:h3/C19-1/patch.diff'),
 # … and semantic mutants of those forms (they must still fail)
 ('M35 FindRoot array form: the Newton point is stored but not counted','util/fn/root.go','nTrials = 3','nTrials = 2','mut-patch:h3/C11-3/patch.diff'),
 ('M36 FindRoot array form: exit test against the constant 2','util/fn/root.go','if hitConvergenceLimit == nTrials {','if hitConvergenceLimit == 2 {','mut-patch:h3/C11-3/patch.diff'),
 ('M37 FindRoot array form: second trial point is the mean of the two','util/fn/root.go','trialXs[1] = bisectionX','trialXs[1] = (bisectionX + halvingX) * 0.5','mut-patch:h3/C11-3/patch.diff'),
 ('M38 FindRoot count-down loop: one iteration fewer','util/fn/root.go','remaining > 0; remaining--','remaining > 1; remaining--','mut-patch:h3/C18-3/patch.diff'),
 ('M39 FindRoot reordered bookkeeping: counter incremented when NOT close','util/fn/root.go','if closeToX {','if !closeToX {','mut-patch:h3/C18-3/patch.diff'),
 ('M40 FindRoot parallel write-back halves the residual','util/fn/root.go','minX, minDelta = newMinX, newMinDelta','minX, minDelta = newMinX, newMinDelta*0.5','mut-patch:h3/C18-3/patch.diff'),
 ('M41 brackets upper index alone: returns (upper, upper)','util/fn/piecewise.go','return upper - 1, upper','return upper, upper','mut-patch:h3/C13-1/patch.diff'),
 ('M42 leapYear reordered: century years are leap years','models/functions/dates.go','case y%100 == 0:\n\t\treturn false','case y%100 == 0:\n\t\treturn true','mut-patch:h3/C19-1/patch.diff'),
 ('H31 index helpers: range ↔ index loops, running stride in Offsets, temporaries (h3/C02-1)','data/sliceops.go',None,None,'harmless-patch:h3/C02-1/patch.diff'),
 ('H32 brackets through an accessor closure, merged range test, constant noBracket (h3/C18-2)','util/fn/piecewise.go',None,None,'harmless-patch:h3/C18-2/patch.diff'),
 ('M44 Offsets running stride: multiplies by the wrong dimension','data/arraysint.go','stride *= dims[i]','stride *= dims[i-1]','mut-patch:h3/C02-1/patch.diff'),
 ('M45 Offsets running stride: stored one place too far','data/arraysint.go','res[i-1] = stride','res[i] = stride','mut-patch:h3/C02-1/patch.diff'),
 ('M46 Increment store-once form: carry test <=','data/sliceops.go','if next < wrt[axis] {','if next <= wrt[axis] {','mut-patch:h3/C02-1/patch.diff'),
 ('M47 Argmax index form: off by one','data/sliceops.go','\t\t\tres = i\n','\t\t\tres = i + 1\n','mut-patch:h3/C02-1/patch.diff'),
 ('M48 Maximum index form: reads the previous element','data/sliceops.go','res = max(res, vector[i])','res = max(res, vector[i-1])','mut-patch:h3/C02-1/patch.diff'),
 ('M49 IDivMod with the quotient temporary: divides by the modulator','data/arraysint.go','quotient := numerator / denominators[i]','quotient := numerator / modulator[i]','mut-patch:h3/C02-1/patch.diff'),
 ('M50 brackets accessor closure reads the next knot','util/fn/piecewise.go','\t\tidx[0] = k\n','\t\tidx[0] = k + 1\n','mut-patch:h3/C18-2/patch.diff'),
 ('M51 brackets merged range test against the last but one knot','util/fn/piecewise.go','x > knot(n-1)','x > knot(n-2)','mut-patch:h3/C18-2/patch.diff'),
 ('M52 brackets constant noBracket = -2','util/fn/piecewise.go','const noBracket = -1','const noBracket = -2','mut-patch:h3/C18-2/patch.diff'),
 ('M43 FindRoot: a local that IS read is not removed (the exit test reads the length of trialDeltas + 1)','util/fn/root.go','if hitConvergenceLimit == len(trialXs) {','if hitConvergenceLimit == len(trialDeltas)+1 {','mut'),
]


def contig_rename(s):
    a = s.index('func (nd *NdArrayTypeCommon) Contiguous() bool')
    b = s.index('func (nd *NdArrayTypeCommon) Len1')
    body = s[a:b].replace('contiguousOffset', 'co').replace('dimsMustBeOne', 'mustOne').replace('nd.', 'self.').replace('(nd *', '(self *')
    return s[:a] + body + s[b:]


def main(sel):
    verif = os.path.dirname(os.path.dirname(os.path.abspath(__file__)))
    repo = '/tmp/repo-genidx-%d' % os.getpid()
    shutil.copytree(os.environ.get('OW_REPO', '/repo'), repo, symlinks=True, ignore=shutil.ignore_patterns('.git'))
    env = dict(os.environ, OW_REPO=repo, GOFLAGS='-mod=mod', GOPROXY='off', GOSUMDB='off', GOTOOLCHAIN='local')
    bad = 0
    try:
        for (mid, f, old, new, kind) in MUT:
            if sel and not any(mid.startswith(x) for x in sel):
                continue
            p = os.path.join(repo, f)
            orig = open(p).read()
            if kind == 'harmless-fn':
                mod = contig_rename(orig)
            elif kind.startswith('harmless-patch:') or kind.startswith('mut-patch:'):
                diff = os.path.join(verif, 'harmless', kind.split(':', 1)[1])
                if subprocess.run(['git', 'apply', diff], cwd=repo, capture_output=True).returncode != 0 \
                        and subprocess.run(['patch', '-p1', '-s', '-i', diff], cwd=repo, capture_output=True).returncode != 0:
                    print(mid, 'SKIPPED: the stored patch no longer applies')
                    continue
                mod = open(p).read()
                if old is not None:   # a mutation of the rewritten text
                    if mod.count(old) != 1:
                        open(p, 'w').write(orig)
                        print(mid, 'SKIPPED: the source text of this entry is no longer there')
                        continue
                    mod = mod.replace(old, new)
            else:
                if orig.count(old) != 1:
                    print(mid, 'SKIPPED: the source text of this entry is no longer there')
                    continue
                mod = orig.replace(old, new)
            open(p, 'w').write(mod)
            try:
                compiles = True
                if not f.startswith('io/'):   # package io needs the HDF5 stand-in of the harness module
                    compiles = subprocess.run(['go', 'build', './' + os.path.dirname(f)], cwd=repo, env=env, capture_output=True).returncode == 0
                r = subprocess.run([sys.executable, '-m', 'vlib.genidx'], cwd=verif, env=env, capture_output=True, text=True)
                try:
                    j = json.loads(r.stdout)
                    failed = j['info']['genidx']['theorems_failed']
                    verdict = 'FAILED: ' + ','.join(failed) if failed else 'no alarm'
                except Exception:
                    verdict = 'ERROR ' + (r.stdout + r.stderr)[-400:]
                expected = verdict.startswith('FAILED') if kind.split(':')[0] in ('mut', 'mut-patch') else verdict == 'no alarm'
                if mid.startswith('H17b'):
                    expected = True
                bad += 0 if expected and compiles else 1
                print('%-4s %-70s %-8s %s%s' % ('ok' if expected and compiles else 'BAD', mid, kind.split('-')[0].split(':')[0], verdict, '' if compiles else '  (Go does not compile!)'), flush=True)
            finally:
                open(p, 'w').write(orig)
                if ':' in kind:   # a stored patch may touch several files: all are taken back from the source tree
                    diff = os.path.join(verif, 'harmless', kind.split(':', 1)[1])
                    for line in open(diff):
                        if line.startswith('+++ b/'):
                            rel = line[6:].strip()
                            srcf = os.path.join(os.environ.get('OW_REPO', '/repo'), rel)
                            if os.path.exists(srcf):
                                shutil.copyfile(srcf, os.path.join(repo, rel))
                            elif os.path.exists(os.path.join(repo, rel)):
                                os.remove(os.path.join(repo, rel))
    finally:
        shutil.rmtree(repo, ignore_errors=True)
        subprocess.run([sys.executable, '-m', 'vlib.genidx'], cwd=verif, env=dict(env, OW_REPO=os.environ.get('OW_REPO', '/repo')), capture_output=True)
    return 1 if bad else 0


if __name__ == '__main__':
    sys.exit(main(sys.argv[1:]))
