"""Property C07 — pre-step: build the REAL ow-sim binary from the tree under test (stdlib only).

cmd/ow-sim links gonum.org/v1/hdf5 (cgo, libhdf5). There is no libhdf5 in this environment, so the binary is built FROM
THE HARNESS MODULE, whose go.mod replaces gonum hdf5 by the pure-Go stub /verif/harness/hdf5stub and
github.com/flowmatters/openwater-core by the tree under test (/repo, or OW_REPO=<scratch copy>; vlib.core.build_harness
has just made the re-pointed copy of the harness module in that case). Tag `verif` enables the trace hooks
(cmd/ow-sim/verif_trace_on.go). The path of the binary is handed to the harness families through OW_SIM_BIN; the
directory in which the SIM family runs ow-sim (one sub-directory per case, removed after the case) through OW_SIM_WORK.
OW_SIM_CASES (optional, from the caller's environment) names a directory in which the SIM family keeps a few small
generated input files for other checks (ow-sim -race)."""
import hashlib
import os
import time

from vlib import core
from vlib.core import BUILD, GOENV, HARNESS, Internal, Lock, run

HOOK_FILES = ["cmd/ow-sim/verif_trace_on.go", "cmd/ow-sim/verif_trace_off.go"]
HOOK_CALLS = ["writer-spawned", "token-received", "purge", "token-resent", "write-start", "write-done", "token-sent",
              "links-applied", "main-final-received"]


def build_owsim_step(check, ctx):
    repo = os.path.realpath(core.REPO)
    # the hooks are add-only files + one-line calls (fixes/hook_owsim_trace.diff); without them there is no trace to
    # validate: that is a set-up problem of the machinery, never a verdict
    missing = [f for f in HOOK_FILES if not os.path.exists(os.path.join(repo, f))]
    main_go = open(os.path.join(repo, "cmd/ow-sim/main.go")).read()
    missing += ["main.go: verifTrace(\"%s\", …)" % c for c in HOOK_CALLS if ('verifTrace("%s"' % c) not in main_go]
    if missing:
        raise Internal("the ow-sim trace hooks are not in %s (apply /verif/fixes/hook_owsim_trace.diff): %s"
                       % (repo, ", ".join(missing)))
    hdir = HARNESS
    lock = "gobuild-owharness"
    if repo != "/repo":
        tagd = hashlib.sha1(repo.encode()).hexdigest()[:10]
        hdir = os.path.join(BUILD, "harness-" + tagd)
        lock = "gobuild-owharness-" + tagd
    out = os.path.join(ctx["workdir"], "ow-sim")
    t0 = time.time()
    with Lock(lock):
        r = run(["go", "build", "-tags", "verif", "-o", out, "github.com/flowmatters/openwater-core/cmd/ow-sim"],
                cwd=hdir, env=GOENV)
    if r.returncode != 0:
        raise Internal("cmd/ow-sim does not build from the harness module (hdf5 stub):\n" + (r.stderr or "")[-3000:])
    ctx["info"]["ow_sim_build"] = "built in %.1fs from %s (tag verif, gonum hdf5 replaced by the stub)" % (time.time() - t0, repo)
    work = os.path.join(ctx["workdir"], "simwork")
    os.makedirs(work, exist_ok=True)
    # run_family builds the harness environment from core.GOENV at call time
    GOENV["OW_SIM_BIN"] = out
    GOENV["OW_SIM_WORK"] = work
    return []
