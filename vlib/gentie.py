"""Syntactic tie between the hand-written kernel models and the CURRENT Go source (stdlib only).

gentie_step(check, ctx) — a pre-step for vlib.core.Check:

  1. builds harness/cmd/owtranslate (go/parser + go/ast + go/constant only) and runs it on core.REPO: the loop body of every
     kernel of its table is translated to Lean (`OW.Gen.K.<goFunc>.{guard,pre,init,step}`) and lean/OW/Gen/Kernels.lean is
     rewritten if (and only if) the text changed;
  2. `lake build OW.Props.GenTie OW.Props.GenTieReal OW.Props.GenTieWhole …` (MODULES) — the theorems `gen_eq_<Model>`:
     regenerated definition = hand-written model's step (all states, all outputs, the pre-loop coefficients and the
     early-return guard; for the kernels translated as a whole: the whole run), for every `[Num α]`;
  3. a theorem that no longer checks is returned as a problem
         {"kind": "proof-obligation", "name": "gen_eq_<Model> no longer checks (source of <goFunc> changed)", "detail": …}
     (never raised as an internal error): the orchestrator then lets the behavioural correspondence and the oracle decide,
     exactly as for any other broken obligation. Only the theorems of the calling check's property are returned
     (TIES below); failures of other properties' kernels are listed in ctx["info"]["gentie_other_failures"].

  gentie_step_all(check, ctx) is the same step for a check about ALL kernels (every failing theorem is its problem).

  ctx["info"]["gentie_kernels"]      Go functions translated AND tied by a theorem that checks
  ctx["info"]["gentie_unsupported"]  {goFunc: "unsupported: <construct> at file:line"} (kernels of the table outside the subset)
  ctx["info"]["gentie_not_translated_parts"]  {goFunc: [...]} abstract helpers / branches of tied kernels (NOT covered by the tie)
  ctx["info"]["gentie_delegations"]  {goFunc: "branch … runs <callee>"}
  ctx["info"]["gentie"]              timing, whether the generated file changed, axioms of the gen_eq_* theorems

Steps 1–2 run under the lake lock, because OW/Gen/Kernels.lean is shared between concurrent runs (which may look at
different trees via OW_REPO); the file always reflects the tree of the LAST run.
"""
import os
import re
import time
import json

from vlib import core
from vlib.core import Internal, GOENV, HARNESS, LEAN, BUILD

GEN_LEAN = os.path.join(LEAN, "OW", "Gen", "Kernels.lean")
TIE_LEAN = os.path.join(LEAN, "OW", "Props", "GenTie.lean")
# the files that state gen_eq_* theorems (all in namespace OW.Props.GenTie); GenTieReal.lean holds corollaries at ℝ;
# GenTieAll imports all of them (the module whose axioms are audited)
TIE_FILES = ["GenTie.lean", "GenTieWhole.lean", "GenTieStateful.lean", "GenTieGR4J.lean", "GenTieDates.lean", "GenTieStorage.lean", "GenTieSacramento.lean"]
MODULES = ["OW.Props.GenTie", "OW.Props.GenTieReal", "OW.Props.GenTieWhole", "OW.Props.GenTieStateful",
           "OW.Props.GenTieGR4J", "OW.Props.GenTieDates", "OW.Props.GenTieStorage",
           "OW.Props.GenTieSacramento", "OW.Props.GenTieAll"]
AUDIT_MODULE = "OW.Props.GenTieAll"


def _tie_path(name):
    return os.path.join(LEAN, "OW", "Props", name)

# theorem of OW/Props/GenTie.lean → (Go functions it ties, property whose check should call gentie_step)
TIES = {
    "gen_eq_RunoffCoefficient": (["runoffCoefficient"], "C10"),
    "gen_eq_Muskingum": (["muskingum"], "C11"),
    "gen_eq_LumpedConstituent": (["LumpedConstituentTransport"], "C12"),
    "gen_eq_ConstituentDecay": (["constituentDecay"], "C12"),
    "gen_eq_InstreamCoarseSediment": (["instreamCoarseSediment"], "C12"),
    "gen_eq_InstreamParticulateNutrient": (["instreamParticulateNutrient"], "C12"),
    "gen_eq_Scaling": (["applyScaling"], "C16"),
    "gen_eq_DepthToRate": (["depthToRate"], "C16"),
    "gen_eq_FixedPartition": (["fixedPartition"], "C16"),
    "gen_eq_VariablePartition": (["variablePartition"], "C16"),
    "gen_eq_RatingPartition": (["ratingPartition"], "C16"),
    "gen_eq_Sum": (["sum"], "C16"),
    "gen_eq_Gate": (["gate"], "C16"),
    "gen_eq_ComputeProportion": (["computeProportion"], "C16"),
    "gen_eq_PartitionDemand": (["partitionDemand"], "C16"),
    "gen_eq_EmcDwc": (["emcDWC"], "C16"),
    "gen_eq_FixedConcentration": (["fixedConcentration"], "C16"),
    "gen_eq_PassLoadIfFlow": (["passLoadIfFlow"], "C16"),
    "gen_eq_DissolvedNutrients": (["dissolvedNutrients"], "C16"),
    "gen_eq_ParticulateNutrients": (["particulateNutrients"], "C16"),
    "gen_eq_BankErosion": (["bankErosion"], "C16"),
    "gen_eq_UsleFine": (["usleFine"], "C16"),
    "gen_eq_SednetGully": (["sednetGullyOrig"], "C16"),
    "gen_eq_SednetGullyAlt": (["sednetGullyDerm"], "C16"),
    "gen_eq_BaseflowFilter": (["baseflowFilter"], "C16"),
    "gen_eq_Simhyd": (["simhyd"], "C10"),
    "gen_eq_Surm": (["surm"], "C10"),
    "gen_eq_StorageParticulateTrapping": (["storageParticulateTrapping"], "C12"),
    "gen_eq_StorageDissolvedDecay": (["storageDissolvedDecay"], "C12"),
    "gen_eq_InstreamDissolvedNutrient": (["instreamDissolvedNutrient"], "C12"),
    "gen_eq_InstreamFineSediment": (["instreamFineSediment"], "C12"),
    "gen_eq_ClimateVariables": (["climateVariables"], "C20"),
    # GenTieWhole.lean: kernels translated as a whole (series as lists)
    "gen_eq_Lag": (["lag"], "C11"),
    "gen_eq_StorageTrapAll": (["storageTrapAll"], "C12"),
    "gen_eq_InputNode": (["inputNode"], "C16"),
    # GenTieStateful.lean, GenTieGR4J.lean: helpers with closures / panics / an abstract FindRoot; slices and inner loops
    "gen_eq_StorageRouting": (["storageRouting"], "C11"),
    "gen_eq_GR4J": (["gr4j"], "C10"),
    # GenTieDates.lean: int arithmetic, typed helpers, a constant table, a loop that may panic
    "gen_eq_DateGenerator": (["dateGenerator"], "C19"),
    # GenTieStorage.lean: tables, function literals, sub-step loops with fuel, statements after the loop
    "gen_eq_Storage": (["storageWaterBalance"], "C13"),
    # GenTieSacramento.lean: rfl against the copy OW/Proofs/SacramentoMid.lean, which is proved equal to the hand model
    "gen_eq_Sacramento": (["sacramento"], "C10"),
}
# auxiliary theorems of GenTie.lean (helper functions of a kernel) are named <theorem>_<helper>: attributed to <theorem>
# theorems of GenTieReal.lean are corollaries: a failure there is attributed to the GenTie theorem they instantiate
REAL_OF = {"gen_eq_LumpedConstituent_real": "gen_eq_LumpedConstituent",
           "gen_eq_InstreamCoarseSediment_real": "gen_eq_InstreamCoarseSediment",
           "gen_eq_StorageDissolvedDecay_real": "gen_eq_StorageDissolvedDecay",
           "gen_eq_InstreamDissolvedNutrient_real": "gen_eq_InstreamDissolvedNutrient",
           "gen_eq_InstreamFineSediment_real": "gen_eq_InstreamFineSediment",
           "gen_eq_ClimateVariables_real": "gen_eq_ClimateVariables"}


def _owner(name):
    """the TIES theorem a theorem of GenTie.lean belongs to (itself, or the longest TIES name it extends with `_…`)"""
    if name in TIES:
        return name
    best = None
    for t in TIES:
        if name and name.startswith(t + "_") and (best is None or len(t) > len(best)):
            best = t
    return best


def _theorem_lines(path):
    """[(first line, name)] of the theorems of a Lean file, in order; the first line is that of the doc comment when there
    is one (Lean reports some errors of a declaration at its very beginning)."""
    out = []
    doc = None
    for i, line in enumerate(open(path, encoding="utf-8").read().splitlines(), 1):
        if line.startswith("/--"):
            doc = i
            continue
        m = re.match(r"\s*theorem\s+([^\s:({\[]+)", line)
        if m:
            out.append((doc or i, m.group(1)))
        if re.match(r"(theorem|def|abbrev|instance|macro|macro_rules|syntax|namespace|end|open|section|#\w+)\b", line):
            doc = None
    return out


def _namespace_lines(path):
    out = []
    if os.path.exists(path):
        for i, line in enumerate(open(path, encoding="utf-8").read().splitlines(), 1):
            m = re.match(r"namespace\s+(\S+)", line)
            if m and m.group(1) != "delegate":   # the callee of a delegation, nested in the kernel's namespace
                out.append((i, m.group(1).strip("«»")))
    return out


def _enclosing(table, line):
    name = None
    for start, n in table:
        if start <= line:
            name = n
    return name


def _build_translator():
    exe = os.path.join(BUILD, "owtranslate")
    with core.Lock("gobuild-owtranslate"):
        tmp = exe + ".%d" % os.getpid()
        r = core.run(["go", "build", "-o", tmp, "./cmd/owtranslate"], cwd=HARNESS, env=GOENV)
        if r.returncode != 0:
            raise Internal("owtranslate does not build:\n" + (r.stderr or "")[-3000:])
        os.replace(tmp, exe)
    return exe


def run_gentie(ctx=None):
    """Steps 1–2. Returns (report of the translator, {theorem: [error texts]}, raw lake output, timings)."""
    t0 = time.time()
    exe = _build_translator()
    t1 = time.time()
    with core.Lock("lake"):
        r = core.run([exe, "-repo", core.REPO, GEN_LEAN], env=GOENV)
        if r.returncode != 0:
            raise Internal("owtranslate failed:\n" + (r.stderr or "")[-3000:])
        rep = json.loads(r.stdout)
        t2 = time.time()
        b = core.run(["lake", "build"] + MODULES, cwd=LEAN)
        t3 = time.time()
    out = (b.stdout or "") + (b.stderr or "")
    failed = {}
    if b.returncode != 0:
        tie_thms = {f: _theorem_lines(_tie_path(f)) for f in TIE_FILES}
        real_thms = _theorem_lines(os.path.join(LEAN, "OW", "Props", "GenTieReal.lean"))
        gen_ns = [(l, n) for l, n in _namespace_lines(GEN_LEAN) if n != "OW.Gen.K"]
        by_func = {}
        for thm, (funcs, _) in TIES.items():
            for f in funcs:
                by_func.setdefault(f, []).append(thm)
        located = 0
        for m in re.finditer(r"error: (?:\./)*([^\s:]+\.lean):(\d+):(\d+): ([^\n]*(?:\n(?!\S*(?:error|warning|info):|[✖✔ℹ⚠]).*)*)", out):
            path, line, msg = m.group(1), int(m.group(2)), m.group(4).strip()
            thms = []
            if path.endswith(tuple("OW/Props/" + f for f in TIE_FILES)):
                t = _owner(_enclosing(tie_thms[os.path.basename(path)], line))
                thms = [t] if t else []
            elif path.endswith("OW/Props/GenTieReal.lean"):
                t = REAL_OF.get(_enclosing(real_thms, line))
                thms = [t] if t else []
            elif path.endswith("OW/Gen/Kernels.lean"):   # the generated definition itself does not elaborate
                thms = by_func.get(_enclosing(gen_ns, line), [])
                msg = "generated definition does not compile: " + msg
            for t in thms:
                located += 1
                failed.setdefault(t, []).append("%s:%d: %s" % (os.path.basename(path), line, msg[:600]))
        if not located:
            # The tie modules (or the hand-written lemma files they import, which mention regenerated names) do not build against the
            # regenerated definitions, and the error is not inside one theorem: e.g. a struct the lemmas name is no longer translatable
            # because the source gave it a new field. On the unchanged tree these modules build (setup, every run), so the cause is the
            # source change: EVERY tie of this translator is a broken obligation — a verdict, not an internal error.
            first = re.search(r"error: [^\n]*(?:\n(?!\S*(?:error|warning|info):).*){0,3}", out)
            why = "the tie modules do not build against the regenerated definitions: " + (first.group(0)[:600] if first else out[-600:])
            for t in TIES:
                failed.setdefault(t, []).append(why)
    return rep, failed, out, {"translator_build_s": round(t1 - t0, 2), "translate_s": round(t2 - t1, 2),
                              "lake_s": round(t3 - t2, 2)}


def gentie_step_all(check, ctx):
    """Like gentie_step, for a check whose theorems quantify over ALL kernel models (C06, C14): every `gen_eq_*` that no longer
    checks is returned as a problem of the calling check, whatever property the theorem is listed under in TIES."""
    return gentie_step(check, ctx, all_ties=True)


def gentie_step(check, ctx, only_property=None, all_ties=False):
    info = ctx["info"]
    t0 = time.time()
    rep, failed, out, timing = run_gentie(ctx)
    status = {k["func"]: k for k in rep["kernels"]}
    unsupported = {f: "%s: %s" % (k["status"], k.get("reason", "")) for f, k in status.items() if k["status"] != "ok"}
    pid = only_property or getattr(check, "pid", None)
    mine = list(TIES) if all_ties else ([t for t, (_, p) in TIES.items() if p == pid] or list(TIES))
    known = {n for f in TIE_FILES for _, n in _theorem_lines(_tie_path(f))}
    missing = [t for t in TIES if t not in known]
    if missing:
        raise Internal("vlib/gentie.py lists theorems that OW/Props/GenTie*.lean do not state: " + ", ".join(missing))

    problems, other = [], []
    for thm in TIES:
        if thm not in failed:
            continue
        funcs, prop = TIES[thm]
        why = []
        for f in funcs:
            k = status.get(f)
            if k is None or k["status"] != "ok":
                why.append("%s is no longer translatable (%s)" % (f, unsupported.get(f, "not in the translator's table")))
        p = {"kind": "proof-obligation",
             "name": "%s no longer checks (source of %s changed)" % (thm, ", ".join(funcs)),
             "detail": {"theorem": "OW.Props.GenTie." + thm, "go_functions": funcs, "property": prop,
                        "source": [dict(func=f, file=status[f]["file"], line=status[f].get("line")) for f in funcs if f in status],
                        "translator": why, "lean_errors": failed[thm][:6],
                        "meaning": "the loop body regenerated from the current source is no longer the hand-written model's step: "
                                   "the theorems about the model are not attached to this source until the model is updated "
                                   "(or the change is reverted); behavioural correspondence and the oracle decide whether the "
                                   "property is violated"}}
        (problems if thm in mine else other).append(p)

    tied_funcs = sorted({f for t, (fs, _) in TIES.items() if t not in failed for f in fs
                         if status.get(f, {}).get("status") == "ok"})
    info["gentie_kernels"] = tied_funcs
    info["gentie_unsupported"] = unsupported
    # parts of a tied kernel that are NOT translated (only named in the generated file): said so in the evidence
    partial = {}
    for f, k in status.items():
        notes = ["abstract helper " + a for a in k.get("abstract_helpers", [])] + \
                ["branch not translated: " + a for a in k.get("abstract_branches", [])] + \
                ["not modelled: " + a for a in k.get("not_modelled", [])]
        if notes and k["status"] == "ok":
            partial[f] = notes
    if partial:
        info["gentie_not_translated_parts"] = partial
    deleg = {f: k["delegation"] for f, k in status.items() if k.get("delegation")}
    if deleg:
        info["gentie_delegations"] = deleg
    untied = sorted(f for f, k in status.items() if k["status"] == "ok" and not any(f in fs for fs, _ in TIES.values()))
    if untied:
        info["gentie_translated_without_theorem"] = untied
    if other:
        info["gentie_other_failures"] = [p["name"] for p in other]
    g = {"generated_file": "lean/OW/Gen/Kernels.lean", "rewritten": rep["changed"], "repo": rep["repo"],
         "theorems_of_this_property": mine, "theorems_failed": sorted(failed), "timing": timing}
    if not failed:
        names = ["OW.Props.GenTie." + t for t in TIES]
        res, bad, _ = core.audit_axioms(AUDIT_MODULE, names, ctx["workdir"])
        g["axioms"] = sorted({a for n in names for a in res.get(n, [])})
        for n, why in bad:
            problems.append({"kind": "proof-obligation", "name": n, "detail": why})
    g["total_s"] = round(time.time() - t0, 2)
    info["gentie"] = g
    return problems


if __name__ == "__main__":   # stand-alone: python3 -m vlib.gentie [property]   (no property: all ties)
    import sys
    import tempfile

    class _C:
        pid = sys.argv[1] if len(sys.argv) > 1 else None
    wd = tempfile.mkdtemp(prefix="gentie-")
    c = {"info": {}, "workdir": wd}
    try:
        ps = gentie_step(_C(), c)
    except Internal as e:
        print("INTERNAL-ERROR", e)
        sys.exit(2)
    print(json.dumps({"problems": ps, "info": c["info"]}, indent=1))
    sys.exit(1 if ps else 0)
