"""Property C05 — concurrent cell and model execution is race-free and schedule-independent (stdlib only).

Pre-steps for vlib.core.Check:

  facts_step(check, ctx)   tie A. Builds /verif/harness/cmd/owrunfacts (go/parser + go/ast, imports nothing from the tree),
                           runs it on the CURRENT working tree (core.REPO, i.e. OW_REPO or /repo), rewrites
                           lean/OW/Gen/RunFacts.lean when its content changed (the theorems `OW.Gen.RunFacts.facts_ok` and
                           `OW.Props.C05.current_run_facts_ok` are then re-checked by the `lake build` of the check) and
                           reports every rule violation the extractor lists as a problem AND as an oracle failure with
                           scope "runfacts:<file>:<rule>" (the offending statement is the failing input).
  race_step(check, ctx)    thorough tier only; sampling, never counted as proof. Builds the harness with `-race` into its own
                           binary and runs family W (one vectorised Run of N cells through the real generated wrapper) for all
                           models under GOMAXPROCS 4 and 16 with GORACE=halt_on_error=1; a report of the race detector is an
                           oracle failure with scope "race:<model>" whose replay carries the detector's output. Also builds
                           cmd/ow-sim with -race from the harness module and, when OW_SIM_CASES names a directory, runs it on
                           every *.h5 file found there (model graphs produced by the C07 machinery); skipped when unset.
"""
import glob
import hashlib
import json
import os
import re
import shutil
import subprocess
import time

from vlib import core
from vlib.core import BUILD, GOENV, HARNESS, Internal, log

GEN_LEAN = os.path.join(core.LEAN, "OW", "Gen", "RunFacts.lean")
RACE_PROCS = (4, 16)


def _repo():
    return os.path.realpath(core.REPO)


def _oracle(ctx, scope, what, op="", family="C05"):
    ofs = ctx.setdefault("oracle_failures", [])
    ofs.append({"case": len(ofs), "scope": scope, "what": what[:6000], "op": op, "family": family})


# ---------------------------------------------------------------------------------------------
# tie A: structural facts of the goroutine closures

def build_owrunfacts(ctx):
    out = os.path.join(ctx["workdir"], "owrunfacts")
    if os.path.exists(out):
        return out
    with core.Lock("gobuild-owrunfacts"):
        r = core.run(["go", "build", "-o", out, "./cmd/owrunfacts"], cwd=HARNESS, env=GOENV)
    if r.returncode != 0:
        raise Internal("owrunfacts does not build:\n" + (r.stderr or "")[-3000:])
    return out


def facts_step(check, ctx):
    t0 = time.time()
    info = ctx["info"]
    problems = []
    exe = build_owrunfacts(ctx)
    js = os.path.join(ctx["workdir"], "runfacts.json")
    lean_tmp = os.path.join(ctx["workdir"], "RunFacts.lean")
    r = core.run([exe, "-json", js, "-lean", lean_tmp, _repo()], env=GOENV)
    if r.returncode != 0:
        raise Internal("owrunfacts failed:\n" + (r.stderr or "")[-3000:])
    facts = json.load(open(js))
    with open(lean_tmp, encoding="utf-8") as f:
        src = f.read()
    old = None
    if os.path.exists(GEN_LEAN):
        with open(GEN_LEAN, encoding="utf-8") as f:
            old = f.read()
    if old != src:
        os.makedirs(os.path.dirname(GEN_LEAN), exist_ok=True)
        tmp = GEN_LEAN + ".%d.tmp" % os.getpid()
        with open(tmp, "w", encoding="utf-8") as f:
            f.write(src)
        os.replace(tmp, GEN_LEAN)

    sites = facts["sites"]
    by_kind = {}
    for s in sites:
        by_kind[s["kind"]] = by_kind.get(s["kind"], 0) + 1
    n_events = sum(len(s["events"]) for s in sites)
    for v in facts["violations"]:
        name = "structural rule %s violated in %s" % (v["rule"], v["file"])
        problems.append({"kind": "proof-obligation", "name": name, "detail": v["detail"]})
        _oracle(ctx, "runfacts:%s:%s" % (v["file"], v["rule"]), "%s: %s" % (name, v["detail"]))
    info["c05_runfacts"] = {
        "repo": facts["root"], "sites": len(sites), "by_kind": by_kind, "events": n_events,
        "wrapper_files_with_Run": facts["wrapper_files"], "template_variants": facts["template_variants"],
        "cell_dims": facts["cell_dims"], "violations": len(facts["violations"]), "extract_errors": facts["errors"],
        "go_statements_in_tree": len(facts["go_stmts"]),
        "go_statements_not_analysed_here (C07)": ["%s:%d %s" % (g["file"], g["line"], g["func"]) for g in facts["go_stmts"] if not g["site"]],
        "callees_scanned": sum(s["callees_scanned"] for s in sites),
        "lean": {"file": "lean/OW/Gen/RunFacts.lean", "rewritten": old != src, "bytes": len(src.encode("utf-8")),
                 "sha256": hashlib.sha256(src.encode("utf-8")).hexdigest()[:16]},
        "seconds": round(time.time() - t0, 2),
    }
    ex = []
    for s in sites:
        if s["kind"] == "cells" and len(ex) < 3 or s["kind"] == "models":
            w = [e for e in s["events"] if e["access"] == "call" and e["method"] in
                 ("Set", "Set1", "Set2", "Set3", "Apply", "Apply1", "ApplySlice", "CopyFrom")]
            ex.append("runfacts %s %s: closure(%s) launched with (%s); declared inside %d, captured %s; %d events, writes: %s; "
                      "%d send(s) on %s, tail=%s; launch %s %s, %d receive(s) per iteration up to %s; %d callees scanned, %d non-local writes"
                      % (s["file"], s["func"], ",".join(s["closure_params"]), ",".join(s["call_args"]), len(s["declared_inside"]),
                         ",".join(s["captured"]), len(s["events"]),
                         "; ".join("%s.%s@%s(%s)" % (e["var"][:24], e["method"], e["root"], e["loc"]) for e in w) or "none",
                         s["sends"], s["chan"], s["send_tail"], s["launch_form"], s["launch_count"], s["recv_per_iter"], s["recv_bound"],
                         s["callees_scanned"], len(s["callee_writes"])))
    info.setdefault("samples", []).extend(ex)
    if facts["violations"]:
        _probe_families(check, ctx)
    log("C05 run facts: %d sites (%s), %d events, %d violations, lean %s"
        % (len(sites), ", ".join("%s=%d" % kv for kv in sorted(by_kind.items())), n_events, len(facts["violations"]),
           "rewritten" if old != src else "unchanged"))
    return problems


def _probe_families(check, ctx):
    """The structural rules are violated: the real code may now crash the harness GENERATOR process itself (some case generators
    warm the model up in-process; a goroutine panic there cannot be recovered) — which vlib.core would report as an internal error
    instead of a verdict. Run every family once in a scratch directory first; a family whose generator dies is dropped from this run
    and its crash is recorded as one more failing input."""
    keep = []
    dropped = []
    for fam in check.families:
        if fam.thorough_only and ctx["tier"] != "thorough":
            keep.append(fam)
            continue
        d = os.path.join(ctx["workdir"], "probe-" + fam.label)
        os.makedirs(d, exist_ok=True)
        r = core.run([ctx["harness"], "gen", fam.name, "-seed", str(ctx["seed"]), "-tier", ctx["tier"], "-dir", d] + fam.args,
                     cwd=d, env=dict(GOENV, GOMEMLIMIT="6GiB", OW_HARNESS=ctx["harness"]))
        shutil.rmtree(d, ignore_errors=True)
        if r.returncode == 0:
            keep.append(fam)
        else:
            dropped.append(fam.label)
            _oracle(ctx, "harness-crash:" + fam.label,
                    "the harness generator of family %s died while driving the real code (goroutine panic?):\n%s"
                    % (fam.label, (r.stderr or "")[-3000:]), family=fam.label)
    if dropped:
        check.families = keep
        ctx["info"]["c05_families_dropped_after_generator_crash"] = dropped


# ---------------------------------------------------------------------------------------------
# dynamic side, thorough tier: the race detector

def _harness_dir():
    """The harness module to build from: /verif/harness for /repo; for a scratch tree (OW_REPO) an own copy whose replace
    directive points there, made the way vlib.core.build_harness makes its copy (own directory name: other contributors clean
    build/harness-* after their experiments)."""
    if _repo() == "/repo":
        return HARNESS, ""
    tagd = hashlib.sha1(_repo().encode()).hexdigest()[:10]
    hdir = os.path.join(BUILD, "c05race-" + tagd)
    with core.Lock("gobuild-c05race-" + tagd):
        shutil.rmtree(hdir, ignore_errors=True)
        shutil.copytree(HARNESS, hdir)
        gm = open(os.path.join(hdir, "go.mod")).read().replace("=> /repo", "=> " + _repo())
        open(os.path.join(hdir, "go.mod"), "w").write(gm)
        shutil.copyfile(os.path.join(_repo(), "go.sum"), os.path.join(hdir, "go.sum"))
    return hdir, "-" + tagd


def build_race(ctx, pkg, name):
    if "c05_hdir" not in ctx:
        ctx["c05_hdir"] = _harness_dir()
    hdir, suffix = ctx["c05_hdir"]
    out = os.path.join(BUILD, name + suffix)
    with core.Lock("gobuild-" + os.path.basename(out)):
        t0 = time.time()
        tmp = out + ".%d" % os.getpid()
        # -race switches on -d=checkptr, which rejects cdata.NewFloat64CArray on a Go-allocated buffer (the harness's stand-in for
        # C memory: "converted pointer straddles multiple allocations"); that is not a race, so checkptr is switched off again
        r = core.run(["go", "build", "-race", "-gcflags=all=-d=checkptr=0", "-tags", "verif", "-o", tmp, pkg], cwd=hdir, env=GOENV)
        if r.returncode != 0:
            return None, (r.stderr or "")[-3000:]
        os.replace(tmp, out)
    return out, "built in %.1fs" % (time.time() - t0)


RACE_HDR = re.compile(r"WARNING: DATA RACE")
RUN_FRAME = re.compile(r"\(\*(\w+)\)\.Run\b")


def _series_len(opline):
    """T of a W ops line `W id Model backend nspec spec… nRows nSets params… nBlocks nInputs T …` (None if unreadable)."""
    try:
        t = opline.split()
        i = 4
        i += 1 + int(t[i])
        rows, sets = int(t[i]), int(t[i + 1])
        i += 2 + rows * sets
        return int(t[i + 2])
    except (ValueError, IndexError):
        return None


def _race_reports(logprefix):
    reps = []
    for p in sorted(glob.glob(logprefix + ".*")):
        try:
            txt = open(p, errors="replace").read()
        except OSError:
            continue
        if RACE_HDR.search(txt):
            reps.append((p, txt))
    return reps


def race_step(check, ctx):
    info = ctx["info"]
    if ctx["tier"] != "thorough":
        info["c05_race"] = "skipped (thorough tier only)"
        return []
    from checks.models import ALL_MODELS
    models = list(getattr(check, "c05_models", None) or ALL_MODELS)
    res = {"models": len(models), "runs": []}
    info["c05_race"] = res
    exe, msg = build_race(ctx, "./cmd/owharness", "owharness-race")
    res["build"] = msg if exe else "FAILED"
    if not exe:
        raise Internal("harness does not build with -race:\n" + msg)
    for procs in RACE_PROCS:
        d = os.path.join(ctx["workdir"], "race-p%d" % procs)
        os.makedirs(d, exist_ok=True)
        logprefix = os.path.join(d, "race")
        env = dict(GOENV, GOMEMLIMIT="6GiB", OW_HARNESS=exe, GORACE="halt_on_error=1 log_path=" + logprefix)
        cmd = [exe, "gen", "W", "-seed", str(ctx["seed"] + procs), "-tier", "quick", "-dir", d,
               "models=" + ",".join(models), "n=8", "gomaxprocs=%d" % procs]
        t0 = time.time()
        r = core.run(cmd, cwd=d, env=env)
        if r.returncode != 0 and not _race_reports(logprefix):
            raise Internal("race run (GOMAXPROCS=%d) failed:\n%s" % (procs, (r.stderr or "")[-3000:]))
        stats = {}
        sp = os.path.join(d, "W.stats.json")
        if os.path.exists(sp):
            stats = json.load(open(sp))
        crashed = []
        if os.path.exists(os.path.join(d, "W.impl")):
            ids = set()
            for line in open(os.path.join(d, "W.impl")):
                t = line.split(None, 2)
                if len(t) > 1 and t[1] == "panic":
                    ids.add(t[0])
            if ids:
                for line in open(os.path.join(d, "W.ops")):
                    t = line.split(None, 3)
                    if len(t) > 2 and t[1] in ids:
                        crashed.append((t[1], t[2], line.rstrip("\n")[:4000], t[3].split(None, 1)[0], _series_len(line)))
        reps = _race_reports(logprefix)
        for k, (path, txt) in enumerate(reps):
            m = RUN_FRAME.search(txt)
            model = m.group(1) if m else (crashed[k][1] if k < len(crashed) else "unknown")
            cands = [c for c in crashed if c[1] == model] or crashed[k:k + 1]
            cands.sort(key=lambda c: 0 if c[4] == 0 else 1)
            case = cands[0] if cands else None
            scope = "race:" + model
            note = ""
            if case and case[4] == 0 and case[3] == "c":
                # empty series on C-backed (unchecked) arrays: a kernel that touches element 0 writes outside its (empty) row
                scope += ":empty-series"
                note = " [series length 0, C-backed arrays: out-of-bounds access of an empty row]"
            _oracle(ctx, scope, "race detector report, family W, GOMAXPROCS=%d, model %s%s:\n%s" % (procs, model, note, txt[:5000]),
                    op=case[2] if case else "", family="W-p%d" % procs)
        for of in stats.get("oracle_failures") or []:
            of["family"] = "W-race-p%d" % procs
            ctx.setdefault("oracle_failures", []).append(of)
        res["runs"].append({"gomaxprocs": procs, "cases": stats.get("cases"), "seconds": round(time.time() - t0, 1),
                            "race_reports": len(reps), "worker_crashes": (stats.get("hist") or {}).get("worker_crash", 0),
                            "crashed_cases": [c[1] for c in crashed][:10]})
        log("C05 race run GOMAXPROCS=%d: %s cases, %d race reports, %.1fs" % (procs, stats.get("cases"), len(reps), time.time() - t0))
    owsim_race(ctx, res)
    return []


def owsim_race(ctx, res):
    """Hook for the ow-sim binary under the race detector: graphs come from the C07 machinery (env OW_SIM_CASES)."""
    exe, msg = build_race(ctx, "github.com/flowmatters/openwater-core/cmd/ow-sim", "ow-sim-race")
    res["ow_sim_race_build"] = msg if exe else "FAILED: " + msg[-400:]
    cases_dir = os.environ.get("OW_SIM_CASES")
    if not cases_dir:
        res["ow_sim_race"] = "skipped: OW_SIM_CASES not set (model graphs are produced by the C07 check)"
        return
    if not exe:
        res["ow_sim_race"] = "skipped: ow-sim does not build with -race in this environment"
        return
    files = sorted(glob.glob(os.path.join(cases_dir, "**", "*.h5"), recursive=True))
    runs = []
    for i, f in enumerate(files):
        for procs in RACE_PROCS:
            d = os.path.join(ctx["workdir"], "owsim-race-%d-p%d" % (i, procs))
            os.makedirs(d, exist_ok=True)
            logprefix = os.path.join(d, "race")
            env = dict(GOENV, GOMAXPROCS=str(procs), GORACE="halt_on_error=1 log_path=" + logprefix)
            try:
                r = subprocess.run([exe, "-overwrite", f, os.path.join(d, "out.h5")], cwd=d, env=env, stdout=subprocess.PIPE,
                                   stderr=subprocess.PIPE, timeout=600)
                rc = r.returncode
            except subprocess.TimeoutExpired:
                rc = -1
            reps = _race_reports(logprefix)
            for _, txt in reps:
                _oracle(ctx, "race:ow-sim", "race detector report, ow-sim %s, GOMAXPROCS=%d:\n%s" % (f, procs, txt[:5000]),
                        op=f, family="ow-sim-race")
            runs.append({"file": f, "gomaxprocs": procs, "exit": rc, "race_reports": len(reps)})
    res["ow_sim_race"] = {"files": len(files), "runs": runs}
