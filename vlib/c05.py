"""Property C05 — concurrent cell and model execution is race-free and schedule-independent (stdlib only).

Pre-steps for vlib.core.Check:

  facts_step(check, ctx)   tie A. Builds /verif/harness/cmd/owrunfacts (go/parser + go/ast, imports nothing from the tree),
                           runs it on the CURRENT working tree (core.REPO, i.e. OW_REPO or /repo) — the extractor knows the
                           counted done-channel join and the sync.WaitGroup join, one goroutine per cell and a bounded worker
                           pool over a channel of cell indices, and follows the closure's calls into named per-cell methods and
                           per-cell view helpers of the module (see its header) —, rewrites
                           lean/OW/Gen/RunFacts.lean when its content changed (the theorems `OW.Gen.RunFacts.facts_ok` and
                           `OW.Props.C05.current_run_facts_ok` are then re-checked by the `lake build` of the check) and
                           reports every rule violation the extractor lists as a problem AND as an oracle failure with
                           scope "runfacts:<file>:<rule>" (the offending statement is the failing input).
  race_step(check, ctx)    thorough tier only; sampling, never counted as proof. Builds the harness with `-race` into its own
                           binary and runs family W (one vectorised Run of N cells through the real generated wrapper) for all
                           models under GOMAXPROCS 4 and 16 with GORACE=halt_on_error=1; a report of the race detector is an
                           oracle failure with scope "race:<model>" whose replay carries the detector's output. Also builds
                           cmd/ow-sim with -race from the harness module and, when OW_SIM_CASES names a directory, runs it on
                           every *.h5 file found there (model graphs produced by the C07 machinery); skipped when unset.
"""
import glob
import hashlib
import json
import os
import re
import shutil
import subprocess
import time

from vlib import core
from vlib.core import BUILD, GOENV, HARNESS, Internal, log

GEN_LEAN = os.path.join(core.LEAN, "OW", "Gen", "RunFacts.lean")
RACE_PROCS = (4, 16)


def _repo():
    return os.path.realpath(core.REPO)


def _oracle(ctx, scope, what, op="", family="C05"):
    ofs = ctx.setdefault("oracle_failures", [])
    ofs.append({"case": len(ofs), "scope": scope, "what": what[:6000], "op": op, "family": family})


# ---------------------------------------------------------------------------------------------
# tie A: structural facts of the goroutine closures

def build_owrunfacts(ctx):
    out = os.path.join(ctx["workdir"], "owrunfacts")
    if os.path.exists(out):
        return out
    with core.Lock("gobuild-owrunfacts"):
        r = core.run(["go", "build", "-o", out, "./cmd/owrunfacts"], cwd=HARNESS, env=GOENV)
    if r.returncode != 0:
        raise Internal("owrunfacts does not build:\n" + (r.stderr or "")[-3000:])
    return out


def facts_step(check, ctx):
    t0 = time.time()
    info = ctx["info"]
    problems = []
    exe = build_owrunfacts(ctx)
    js = os.path.join(ctx["workdir"], "runfacts.json")
    lean_tmp = os.path.join(ctx["workdir"], "RunFacts.lean")
    r = core.run([exe, "-json", js, "-lean", lean_tmp, _repo()], env=GOENV)
    if r.returncode != 0:
        raise Internal("owrunfacts failed:\n" + (r.stderr or "")[-3000:])
    facts = json.load(open(js))
    with open(lean_tmp, encoding="utf-8") as f:
        src = f.read()
    old = None
    if os.path.exists(GEN_LEAN):
        with open(GEN_LEAN, encoding="utf-8") as f:
            old = f.read()
    if old != src:
        os.makedirs(os.path.dirname(GEN_LEAN), exist_ok=True)
        tmp = GEN_LEAN + ".%d.tmp" % os.getpid()
        with open(tmp, "w", encoding="utf-8") as f:
            f.write(src)
        os.replace(tmp, GEN_LEAN)

    sites = facts["sites"]
    for st in sites:   # a site the extractor could not analyse has null lists
        for k in ("events", "closure_params", "call_args", "declared_inside", "captured", "callee_writes", "loop_vars", "followed"):
            if st.get(k) is None:
                st[k] = []
    by_kind = {}
    for s in sites:
        by_kind[s["kind"]] = by_kind.get(s["kind"], 0) + 1
    n_events = sum(len(s["events"]) for s in sites)
    for v in facts["violations"]:
        # a structural rule is a PROOF OBLIGATION (a hypothesis of the C05 theorems about the current source), not a failing input:
        # a correct re-plumbing (sync.WaitGroup, a worker pool, helpers that build the per-cell views) breaks it as well. The failing
        # input is looked for dynamically (race detector + W correspondence); when none is found the verdict is no-failing-input-found.
        name = "structural rule %s violated in %s" % (v["rule"], v["file"])
        problems.append({"kind": "proof-obligation", "name": name, "detail": v["detail"]})
    info["c05_runfacts"] = {
        "repo": facts["root"], "sites": len(sites), "by_kind": by_kind, "events": n_events,
        "wrapper_files_with_Run": facts["wrapper_files"], "template_variants": facts["template_variants"],
        "cell_dims": facts["cell_dims"], "violations": len(facts["violations"]), "extract_errors": facts["errors"],
        "by_cover": _count(sites, "cover"), "by_join": _count(sites, "join"),
        "followed_callees": sorted({f for s in sites for f in s["followed"]})[:40],
        "go_statements_in_tree": len(facts["go_stmts"]),
        "go_statements_not_analysed_here (C07)": ["%s:%d %s" % (g["file"], g["line"], g["func"]) for g in facts["go_stmts"] if not g["site"]],
        "callees_scanned": sum(s["callees_scanned"] for s in sites),
        "lean": {"file": "lean/OW/Gen/RunFacts.lean", "rewritten": old != src, "bytes": len(src.encode("utf-8")),
                 "sha256": hashlib.sha256(src.encode("utf-8")).hexdigest()[:16]},
        "seconds": round(time.time() - t0, 2),
    }
    ex = []
    for s in sites:
        if s["kind"] == "cells" and len(ex) < 3 or s["kind"] == "models":
            w = [e for e in s["events"] if e["access"] == "call" and e["method"] in
                 ("Set", "Set1", "Set2", "Set3", "Apply", "Apply1", "ApplySlice", "CopyFrom")]
            ex.append("runfacts %s %s [cover=%s join=%s followed=%s]: closure(%s) launched with (%s); declared inside %d, captured %s; %d events, writes: %s; "
                      "%d send(s)/Done() on %s, tail=%s; launch %s %s, %d receive(s) per iteration / Wait() up to %s; %d callees scanned, %d non-local writes"
                      % (s["file"], s["func"], s.get("cover"), s.get("join"), ",".join(s["followed"]) or "-",
                         ",".join(s["closure_params"]), ",".join(s["call_args"]), len(s["declared_inside"]),
                         ",".join(s["captured"]), len(s["events"]),
                         "; ".join("%s.%s@%s(%s)" % (e["var"][:24], e["method"], e["root"], e["loc"]) for e in w) or "none",
                         s["sends"], s["chan"], s["send_tail"], s["launch_form"], s["launch_count"], s["recv_per_iter"], s["recv_bound"],
                         s["callees_scanned"], len(s["callee_writes"])))
    info.setdefault("samples", []).extend(ex)
    if facts["violations"]:
        _probe_families(check, ctx)
        race_probe(ctx, facts["violations"], "C05")
    log("C05 run facts: %d sites (%s), %d events, %d violations, lean %s"
        % (len(sites), ", ".join("%s=%d" % kv for kv in sorted(by_kind.items())), n_events, len(facts["violations"]),
           "rewritten" if old != src else "unchanged"))
    return problems


def _count(sites, key):
    out = {}
    for s in sites:
        out[str(s.get(key))] = out.get(str(s.get(key)), 0) + 1
    return out


def _probe_families(check, ctx):
    """The structural rules are violated: the real code may now crash the harness GENERATOR process itself (some case generators
    warm the model up in-process; a goroutine panic there cannot be recovered) — which vlib.core would report as an internal error
    instead of a verdict. Run every family once in a scratch directory first; a family whose generator dies is dropped from this run
    and its crash is recorded as one more failing input."""
    keep = []
    dropped = []
    for fam in check.families:
        if fam.thorough_only and ctx["tier"] != "thorough":
            keep.append(fam)
            continue
        d = os.path.join(ctx["workdir"], "probe-" + fam.label)
        os.makedirs(d, exist_ok=True)
        r = core.run([ctx["harness"], "gen", fam.name, "-seed", str(ctx["seed"]), "-tier", ctx["tier"], "-dir", d] + fam.args,
                     cwd=d, env=dict(GOENV, GOMEMLIMIT="6GiB", OW_HARNESS=ctx["harness"]))
        shutil.rmtree(d, ignore_errors=True)
        if r.returncode == 0:
            keep.append(fam)
        else:
            dropped.append(fam.label)
            _oracle(ctx, "harness-crash:" + fam.label,
                    "the harness generator of family %s died while driving the real code (goroutine panic?):\n%s"
                    % (fam.label, (r.stderr or "")[-3000:]), family=fam.label)
    if dropped:
        check.families = keep
        ctx["info"]["c05_families_dropped_after_generator_crash"] = dropped


# ---------------------------------------------------------------------------------------------
# dynamic side, thorough tier: the race detector

def _harness_dir():
    """The harness module to build from: /verif/harness for /repo; for a scratch tree (OW_REPO) an own copy whose replace
    directive points there, made the way vlib.core.build_harness makes its copy (own directory name: other contributors clean
    build/harness-* after their experiments)."""
    if _repo() == "/repo":
        return HARNESS, ""
    tagd = hashlib.sha1(_repo().encode()).hexdigest()[:10]
    hdir = os.path.join(BUILD, "c05race-" + tagd)
    with core.Lock("gobuild-c05race-" + tagd):
        shutil.rmtree(hdir, ignore_errors=True)
        shutil.copytree(HARNESS, hdir)
        gm = open(os.path.join(hdir, "go.mod")).read().replace("=> /repo", "=> " + _repo())
        open(os.path.join(hdir, "go.mod"), "w").write(gm)
        shutil.copyfile(os.path.join(_repo(), "go.sum"), os.path.join(hdir, "go.sum"))
    return hdir, "-" + tagd


def build_race(ctx, pkg, name):
    if "c05_hdir" not in ctx:
        ctx["c05_hdir"] = _harness_dir()
    hdir, suffix = ctx["c05_hdir"]
    out = os.path.join(BUILD, name + suffix)
    with core.Lock("gobuild-" + os.path.basename(out)):
        t0 = time.time()
        tmp = out + ".%d" % os.getpid()
        # -race switches on -d=checkptr, which rejects cdata.NewFloat64CArray on a Go-allocated buffer (the harness's stand-in for
        # C memory: "converted pointer straddles multiple allocations"); that is not a race, so checkptr is switched off again
        r = core.run(["go", "build", "-race", "-gcflags=all=-d=checkptr=0", "-tags", "verif", "-o", tmp, pkg], cwd=hdir, env=GOENV)
        if r.returncode != 0:
            return None, (r.stderr or "")[-3000:]
        os.replace(tmp, out)
    return out, "built in %.1fs" % (time.time() - t0)


RACE_HDR = re.compile(r"WARNING: DATA RACE")


def _w_meta(opline):
    """(T, init) of a W ops line `W id Model backend nspec spec… nRows nSets params… nBlocks nInputs T inputs… init N nS …`
    (None where unreadable; ops lines kept for replays may be truncated)."""
    T = init = None
    try:
        t = opline.split()
        i = 4
        i += 1 + int(t[i])
        rows, sets = int(t[i]), int(t[i + 1])
        i += 2 + rows * sets
        nb, ni, T = int(t[i]), int(t[i + 1]), int(t[i + 2])
        i += 3 + nb * ni * T
        init = int(t[i])
    except (ValueError, IndexError):
        pass
    return T, init


def _race_reports(logprefix):
    reps = []
    for p in sorted(glob.glob(logprefix + ".*")):
        try:
            txt = open(p, errors="replace").read()
        except OSError:
            continue
        if RACE_HDR.search(txt):
            reps.append((p, txt))
    return reps


class _RaceWorker:
    """One `owharness-race child W` process with its own race log; the case that kills it is known exactly."""

    def __init__(self, exe, fam, procs, logprefix):
        self.logprefix = logprefix
        env = dict(GOENV, GOMAXPROCS=str(procs), GOMEMLIMIT="2GiB", GOTRACEBACK="single",
                   GORACE="halt_on_error=1 log_path=" + logprefix)
        self.p = subprocess.Popen([exe, "child", fam], stdin=subprocess.PIPE, stdout=subprocess.PIPE, stderr=subprocess.DEVNULL, env=env)

    def call(self, body, timeout=120):
        import select
        try:
            self.p.stdin.write((body + "\n").encode())
            self.p.stdin.flush()
        except (BrokenPipeError, OSError):
            return None
        buf = b""
        end = time.time() + timeout
        fd = self.p.stdout.fileno()
        while not buf.endswith(b"\n"):
            left = end - time.time()
            if left <= 0:
                self.kill()
                return None
            r, _, _ = select.select([fd], [], [], left)
            if not r:
                continue
            chunk = os.read(fd, 1 << 20)
            if not chunk:
                return None        # worker died
            buf += chunk
        return buf.decode(errors="replace").rstrip("\n")

    def kill(self):
        try:
            self.p.kill()
        except OSError:
            pass

    def close(self):
        try:
            self.p.stdin.close()
            self.p.wait(timeout=10)
        except Exception:
            self.kill()


def models_of_violations(violations):
    """catalogue models named by the wrapper files of the violations (generated_<Model>.go); None = not attributable to single models"""
    ms = []
    for v in violations:
        m = re.search(r"generated_(\w+)\.go$", v.get("file", ""))
        if not m:
            return None
        if m.group(1) not in ms:
            ms.append(m.group(1))
    return ms


def race_probe(ctx, violations, tag, max_models=8, n=5):
    """A structural rule broke: look for a FAILING INPUT with the race detector (quick: a handful of vectorised runs of the models
    concerned under GOMAXPROCS 4, race build of the harness). Unsynchronised accesses of two cell goroutines are reported by the
    detector whatever the timing (they are unordered by happens-before), so a real race shows on the first multi-cell case."""
    if ctx.get("race_probe_done"):
        return
    ctx["race_probe_done"] = True
    from checks.models import ALL_MODELS
    t0 = time.time()
    models = models_of_violations(violations)
    if not models or len(models) > max_models:
        pref = ["GR4J", "StorageRouting", "Lag", "Sacramento", "Storage", "InstreamFineSediment", "Muskingum", "DateGenerator"]
        models = [m for m in pref if m in ALL_MODELS][:max_models]
    models = [m for m in models if m in ALL_MODELS]
    res = {"models": models, "why": "structural rule(s) broken: %s" % sorted({v["rule"] for v in violations})}
    ctx["info"]["race_probe_" + tag] = res
    if not models:
        return
    exe, msg = build_race(ctx, "./cmd/owharness", "owharness-race")
    res["build"] = msg if exe else "FAILED: " + msg[-300:]
    if not exe:
        return
    gd = os.path.join(ctx["workdir"], "race-probe-cases")
    os.makedirs(gd, exist_ok=True)
    r = core.run([ctx["harness"], "gen", "W", "-seed", str(ctx["seed"] + 500), "-tier", "quick", "-dir", gd,
                  "models=" + ",".join(models), "n=%d" % n], cwd=gd, env=dict(GOENV, GOMEMLIMIT="6GiB", OW_HARNESS=ctx["harness"]))
    if r.returncode != 0 or not os.path.exists(os.path.join(gd, "W.ops")):
        res["cases"] = "generator died"
        return
    cases = []
    for line in open(os.path.join(gd, "W.ops")):
        t = line.rstrip("\n").split(" ", 2)
        if len(t) == 3:
            cases.append((t[1], t[2]))
    res["cases"] = len(cases)
    d = os.path.join(ctx["workdir"], "race-probe")
    os.makedirs(d, exist_ok=True)
    known_scopes = {k.get("scope") for k in core.load_known() if k.get("status") == "known"}
    w, nworker, reports = None, 0, 0
    for cid, body in cases:
        if time.time() - t0 > 240:
            break
        if w is None:
            nworker += 1
            w = _RaceWorker(exe, "W", 4, os.path.join(d, "race-%d" % nworker))
        if w.call(body) is not None:
            continue
        w.kill()
        reps = _race_reports(w.logprefix)
        w = None
        tok = body.split(None, 2)
        model, backend = tok[0], tok[1]
        T, init = _w_meta("W %s %s" % (cid, body))
        for _, txt in reps:
            scope = "race:" + model
            if T == 0 and backend == "c":
                scope += ":empty-series"
            elif init == 1 and (scope + ":InitialiseStates-row-width") in known_scopes:
                continue   # the recorded finding about InitialiseStates' row width, not what this probe is looking for
            reports += 1
            _oracle(ctx, scope, "race detector report (probe after a broken structural rule), family W case %s, GOMAXPROCS=4, model %s:\n%s"
                    % (cid, model, txt[:5000]), op=("W %s %s" % (cid, body))[:20000], family="W-race-probe")
    if w is not None:
        w.close()
    res["race_reports"] = reports
    res["seconds"] = round(time.time() - t0, 1)
    log("race probe (%s): models %s, %s cases, %d race reports, %.1fs" % (tag, ",".join(models), res.get("cases"), reports, time.time() - t0))


def race_step(check, ctx):
    info = ctx["info"]
    if ctx["tier"] != "thorough":
        info["c05_race"] = "skipped (thorough tier only)"
        return []
    from checks.models import ALL_MODELS
    models = list(getattr(check, "c05_models", None) or ALL_MODELS)
    res = {"models": len(models), "runs": []}
    info["c05_race"] = res
    exe, msg = build_race(ctx, "./cmd/owharness", "owharness-race")
    res["build"] = msg if exe else "FAILED"
    if not exe:
        raise Internal("harness does not build with -race:\n" + msg)
    # the cases: drawn by the ordinary harness (family W generator)
    gd = os.path.join(ctx["workdir"], "race-cases")
    os.makedirs(gd, exist_ok=True)
    r = core.run([ctx["harness"], "gen", "W", "-seed", str(ctx["seed"] + 1000), "-tier", "quick", "-dir", gd,
                  "models=" + ",".join(models), "n=40"], cwd=gd, env=dict(GOENV, GOMEMLIMIT="6GiB", OW_HARNESS=ctx["harness"]))
    if r.returncode != 0 or not os.path.exists(os.path.join(gd, "W.ops")):
        _oracle(ctx, "harness-crash:race-cases", "the W generator died while driving the real code:\n" + (r.stderr or "")[-3000:])
        res["cases"] = "generator died"
        owsim_race(ctx, res)
        return []
    cases = []
    for line in open(os.path.join(gd, "W.ops")):
        t = line.rstrip("\n").split(" ", 2)
        if len(t) == 3:
            cases.append((t[1], t[2]))
    res["cases"] = len(cases)
    init_per_cell = set()
    try:
        init_per_cell = set(json.load(open(os.path.join(ctx["workdir"], "runfacts.json"))).get("init_per_cell") or [])
    except (OSError, ValueError):
        pass
    for procs in RACE_PROCS:
        d = os.path.join(ctx["workdir"], "race-p%d" % procs)
        os.makedirs(d, exist_ok=True)
        t0 = time.time()
        nworker = 0
        w = None
        reports = 0
        deaths = 0
        by_model = {}
        for cid, body in cases:
            if w is None:
                nworker += 1
                w = _RaceWorker(exe, "W", procs, os.path.join(d, "race-%d" % nworker))
            out = w.call(body)
            if out is not None:
                continue
            # the worker died on this case: a panic in a goroutine of the real code, or a halt of the race detector
            w.kill()
            deaths += 1
            reps = _race_reports(w.logprefix)
            w = None
            tok = body.split(None, 2)
            model, backend = tok[0], tok[1]
            T, init = _w_meta("W %s %s" % (cid, body))
            for _, txt in reps:
                reports += 1
                by_model[model] = by_model.get(model, 0) + 1
                scope = "race:" + model
                note = ""
                if T == 0 and backend == "c":
                    # empty series on C-backed (unchecked) arrays: a kernel that touches element 0 writes outside its (empty) row
                    scope += ":empty-series"
                    note = " [series length 0, C-backed arrays: out-of-bounds access of an empty row]"
                elif init == 1 and model in init_per_cell:
                    # the states array came from the wrapper's own InitialiseStates(n), which takes the row width from cell 0: a
                    # cell with a wider state vector (larger ceil(x4) / lag) reaches into the next cell's row (DESIGN §7 D15)
                    scope += ":InitialiseStates-row-width"
                    note = " [states from InitialiseStates(n): row width of cell 0; a wider cell overlaps the next cell's row]"
                _oracle(ctx, scope, "race detector report, family W case %s, GOMAXPROCS=%d, model %s%s:\n%s"
                        % (cid, procs, model, note, txt[:5000]), op=("W %s %s" % (cid, body))[:20000], family="W-p%d" % procs)
        if w is not None:
            w.close()
        res["runs"].append({"gomaxprocs": procs, "cases": len(cases), "seconds": round(time.time() - t0, 1), "race_reports": reports,
                            "worker_deaths (goroutine panics + detector halts)": deaths, "reports_by_model": by_model})
        log("C05 race run GOMAXPROCS=%d: %d cases, %d race reports, %d worker deaths, %.1fs" % (procs, len(cases), reports, deaths, time.time() - t0))
    owsim_race(ctx, res)
    return []


def owsim_race(ctx, res):
    """Hook for the ow-sim binary under the race detector: graphs come from the C07 machinery (env OW_SIM_CASES)."""
    exe, msg = build_race(ctx, "github.com/flowmatters/openwater-core/cmd/ow-sim", "ow-sim-race")
    res["ow_sim_race_build"] = msg if exe else "FAILED: " + msg[-400:]
    cases_dir = os.environ.get("OW_SIM_CASES")
    if not cases_dir:
        res["ow_sim_race"] = "skipped: OW_SIM_CASES not set (model graphs are produced by the C07 check)"
        return
    if not exe:
        res["ow_sim_race"] = "skipped: ow-sim does not build with -race in this environment"
        return
    files = sorted(glob.glob(os.path.join(cases_dir, "**", "*.h5"), recursive=True))
    runs = []
    for i, f in enumerate(files):
        for procs in RACE_PROCS:
            d = os.path.join(ctx["workdir"], "owsim-race-%d-p%d" % (i, procs))
            os.makedirs(d, exist_ok=True)
            logprefix = os.path.join(d, "race")
            env = dict(GOENV, GOMAXPROCS=str(procs), GORACE="halt_on_error=1 log_path=" + logprefix)
            try:
                r = subprocess.run([exe, "-overwrite", f, os.path.join(d, "out.h5")], cwd=d, env=env, stdout=subprocess.PIPE,
                                   stderr=subprocess.PIPE, timeout=600)
                rc = r.returncode
            except subprocess.TimeoutExpired:
                rc = -1
            reps = _race_reports(logprefix)
            for _, txt in reps:
                _oracle(ctx, "race:ow-sim", "race detector report, ow-sim %s, GOMAXPROCS=%d:\n%s" % (f, procs, txt[:5000]),
                        op=f, family="ow-sim-race")
            runs.append({"file": f, "gomaxprocs": procs, "exit": rc, "race_reports": len(reps)})
    res["ow_sim_race"] = {"files": len(files), "runs": runs}
