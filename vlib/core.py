"""Orchestrator core for the openwater-core verification checks (stdlib only).

A check for property P (see DESIGN.md §2.3, §5):
  1. build the Go harness against /repo's current working tree (tag `verif`)
  2. tie A (optional per property): regenerate facts from the source, rebuild the theorems over them
  3. proofs: `lake build OW.Props.P`, `#print axioms` audit of every theorem in it, forbidden-token grep
  4. tie B: the harness drives the real code on generated cases, the compiled Lean driver executes the
     model on the same lines, outputs are compared token by token
  5. oracle: the property's own predicate evaluated by the harness on the implementation's outputs
  6. verdict: exit 0 | exit 1 + VIOLATION line | exit 2 (internal failure, never a verdict)
"""
import fcntl
import json
import math
import os
import re
import shutil
import struct
import subprocess
import sys
import time

VERIF = os.path.dirname(os.path.dirname(os.path.abspath(__file__)))
REPO = os.environ.get("OW_REPO", "/repo")
LEAN = os.path.join(VERIF, "lean")
BUILD = os.path.join(VERIF, "build")
HARNESS = os.path.join(VERIF, "harness")
DRIVER = os.path.join(LEAN, ".lake", "build", "bin", "owdriver")
ALLOWED_AXIOMS = {"propext", "Classical.choice", "Quot.sound"}
FORBIDDEN = re.compile(r"\b(sorry|admit|native_decide|bv_decide|implemented_by|unsafe)\b|^\s*axiom\s|maxHeartbeats\s+0\b")

GOENV = dict(os.environ, GOFLAGS="-mod=mod", GOPROXY="off", GOSUMDB="off", GOTOOLCHAIN="local",
             CGO_ENABLED="1")


class Internal(Exception):
    """A failure of the machinery itself (exit 2, no verdict)."""


def log(*a):
    print(*a, file=sys.stderr, flush=True)


def run(cmd, cwd=None, env=None, timeout=None, stdin=None, stdout=None):
    return subprocess.run(cmd, cwd=cwd, env=env, timeout=timeout, stdin=stdin,
                          stdout=stdout if stdout is not None else subprocess.PIPE,
                          stderr=subprocess.PIPE, text=(stdout is None))


class Lock:
    """flock on build/<name>.lock, re-entrant within this process (a check holds "lake" from its pre-steps, which regenerate
    lean/OW/Gen/*.lean from the tree under test, to the end of its Lean build and axiom audit, so that a concurrent check of ANOTHER
    tree (OW_REPO experiments) cannot swap the generated files in between; the steps inside take the same lock again)."""
    _held = {}

    def __init__(self, name):
        os.makedirs(BUILD, exist_ok=True)
        self.name = name
        self.path = os.path.join(BUILD, name + ".lock")

    def __enter__(self):
        h = Lock._held.get(self.name)
        if h:
            h[1] += 1
            return
        f = open(self.path, "w")
        fcntl.flock(f, fcntl.LOCK_EX)
        Lock._held[self.name] = [f, 1]

    def __exit__(self, *a):
        h = Lock._held[self.name]
        h[1] -= 1
        if h[1] == 0:
            fcntl.flock(h[0], fcntl.LOCK_UN)
            h[0].close()
            del Lock._held[self.name]


# ---------------------------------------------------------------------------------------------
# build steps

def build_harness(tag="verif"):
    """Always rebuilds from the repo's current working tree (go's build cache keys on file contents).
    OW_REPO=<dir> (scratch copies for seeded-change experiments) builds a copy of the harness module whose
    replace directive points there."""
    os.makedirs(BUILD, exist_ok=True)
    hdir = HARNESS
    out = os.path.join(BUILD, "owharness")
    if os.path.realpath(REPO) != "/repo":
        import hashlib
        tagd = hashlib.sha1(os.path.realpath(REPO).encode()).hexdigest()[:10]
        hdir = os.path.join(BUILD, "harness-" + tagd)
        out = os.path.join(BUILD, "owharness-" + tagd)
    with Lock("gobuild-" + os.path.basename(out)):
        if hdir != HARNESS:
            shutil.rmtree(hdir, ignore_errors=True)
            shutil.copytree(HARNESS, hdir)
            gm = open(os.path.join(hdir, "go.mod")).read().replace("=> /repo", "=> " + os.path.realpath(REPO))
            open(os.path.join(hdir, "go.mod"), "w").write(gm)
        shutil.copyfile(os.path.join(REPO, "go.sum"), os.path.join(hdir, "go.sum"))
        t0 = time.time()
        tmp = out + ".%d" % os.getpid()
        r = run(["go", "build", "-tags", tag, "-o", tmp, "./cmd/owharness"], cwd=hdir, env=GOENV)
        if r.returncode != 0:
            return None, r.stderr
        os.replace(tmp, out)
    return out, "built in %.1fs" % (time.time() - t0)


def lake_build(targets):
    with Lock("lake"):
        r = run(["lake", "build"] + targets, cwd=LEAN)
    return r.returncode == 0, (r.stdout or "") + (r.stderr or "")


def props_theorems(module):
    """Names of all theorems in a Props module (fully qualified)."""
    path = os.path.join(LEAN, module.replace(".", "/") + ".lean")
    src = open(path).read()
    # strip block comments
    src_nc = re.sub(r"/-.*?-/", "", src, flags=re.S)
    ns = []
    names = []
    for line in src_nc.splitlines():
        m = re.match(r"\s*namespace\s+(\S+)", line)
        if m:
            ns.append(m.group(1))
            continue
        m = re.match(r"\s*end\s+(\S+)", line)
        if m and ns and ns[-1] == m.group(1):
            ns.pop()
            continue
        m = re.match(r"\s*(?:private\s+|protected\s+)?(?:theorem|lemma)\s+([^\s:({\[]+)", line)
        if m:
            names.append(".".join(ns + [m.group(1)]))
    return names, src


def scan_forbidden():
    """grep the Lean sources for sorry/admit/axiom/native_decide/… outside comments."""
    hits = []
    # only files that belong to the framework (tracked by git); scratch files of work in progress are not part of it
    try:
        tracked = set(subprocess.run(["git", "-C", VERIF, "ls-files", "lean"], stdout=subprocess.PIPE, text=True).stdout.split())
    except Exception:
        tracked = None
    for root, _, files in os.walk(LEAN):
        if ".lake" in root:
            continue
        for f in files:
            if not f.endswith(".lean"):
                continue
            p = os.path.join(root, f)
            if tracked and os.path.relpath(p, VERIF) not in tracked:
                continue
            src = open(p).read()
            src = re.sub(r"/-.*?-/", lambda m: "\n" * m.group(0).count("\n"), src, flags=re.S)
            for i, line in enumerate(src.splitlines(), 1):
                line = re.sub(r"--.*$", "", line)
                if FORBIDDEN.search(line):
                    hits.append("%s:%d: %s" % (os.path.relpath(p, LEAN), i, line.strip()))
    return hits


def audit_axioms(module, names, workdir):
    """`#print axioms` for every theorem; returns {name: [axioms]} and the list of offenders."""
    src = "import %s\n" % module + "".join("#print axioms %s\n" % n for n in names)
    f = os.path.join(workdir, "Audit_%s.lean" % module.replace(".", "_"))
    open(f, "w").write(src)
    with Lock("lake"):
        r = run(["lake", "env", "lean", f], cwd=LEAN)
    out = r.stdout + r.stderr
    res = {}
    for m in re.finditer(r"'([^']+)' depends on axioms: \[([^\]]*)\]", out, flags=re.S):
        res[m.group(1)] = [a.strip() for a in m.group(2).replace("\n", " ").split(",") if a.strip()]
    for m in re.finditer(r"'([^']+)' does not depend on any axioms", out):
        res[m.group(1)] = []
    bad = []
    for n in names:
        if n not in res:
            bad.append((n, "no #print axioms output"))
        else:
            extra = [a for a in res[n] if a not in ALLOWED_AXIOMS]
            if extra:
                bad.append((n, "axioms " + ",".join(extra)))
    return res, bad, out


# ---------------------------------------------------------------------------------------------
# comparison of implementation and model output streams

def f_of(tok):
    return struct.unpack("<d", struct.pack("<Q", int(tok[1:])))[0]


def tok_equal(a, b, rtol, atol):
    if a == b:
        return True
    if a[:1] == "f" and b[:1] == "f" and a[1:].isdigit() and b[1:].isdigit():
        x, y = f_of(a), f_of(b)
        if math.isnan(x) and math.isnan(y):
            return True
        if x == y:  # +0 / -0
            return True
        if rtol is None:
            return False
        if math.isinf(x) or math.isinf(y) or math.isnan(x) or math.isnan(y):
            return False
        return abs(x - y) <= rtol * max(abs(x), abs(y)) + atol
    return False


def line_scale(toks):
    s = 0.0
    for t in toks:
        if t[:1] == "f" and t[1:].isdigit():
            v = f_of(t)
            if math.isfinite(v):
                s = max(s, abs(v))
    return s


def compare_streams(impl_path, model_path, rtol=None, atol_scale=0.0, max_report=20, ops_path=None, tol_by_model=None):
    """Line by line, token by token. Model lines may carry ` | tag…` (branch tags) which are returned
    as a histogram. rtol None = bit-exact floats (NaN==NaN, +0==-0)."""
    mism = []
    tags = {}
    n = 0
    bitdiff = 0
    fo = open(ops_path) if (ops_path and tol_by_model) else None
    base_rtol, base_atol_scale = rtol, atol_scale
    with open(impl_path) as fi, open(model_path) as fm:
        for li, lm in zip(fi, fm):
            n += 1
            if fo is not None:
                # per-model tolerance class: the catalogue model name is among the first tokens of the ops line
                rtol, atol_scale = base_rtol, base_atol_scale
                head = fo.readline().split(None, 8)[:8]
                for tk in head:
                    if tk in tol_by_model:
                        rtol, atol_scale = tol_by_model[tk]
                        break
            lm = lm.rstrip("\n")
            li = li.rstrip("\n")
            if " | " in lm:
                lm, tg = lm.split(" | ", 1)
                for t in tg.split():
                    tags[t] = tags.get(t, 0) + 1
            if " | " in li:
                li = li.split(" | ", 1)[0]
            if li == lm:
                continue
            ti, tm = li.split(), lm.split()
            if len(ti) > 1 and len(tm) > 1 and ti[1] == "panic" and tm[1] == "panic":
                # both panic: when several goroutines of one call panic for different reasons, which panic kills the
                # process first is schedule-dependent, so the class is not compared
                bitdiff += 1
                continue
            ok = len(ti) == len(tm)
            if ok:
                atol = atol_scale * max(line_scale(ti), line_scale(tm)) if rtol is not None else 0.0
                for a, b in zip(ti, tm):
                    if not tok_equal(a, b, rtol, atol):
                        ok = False
                        break
            if ok:
                bitdiff += 1
            else:
                if len(mism) < max_report:
                    mism.append({"case": ti[0] if ti else "?", "impl": li[:600], "model": lm[:600]})
                else:
                    mism.append(None)
        rest_i = fi.read()
        rest_m = fm.read()
    if rest_i.strip() or rest_m.strip():
        mism.append({"case": "stream-length", "impl": "%d extra chars" % len(rest_i), "model": "%d extra chars" % len(rest_m)})
    count = len(mism)
    return {"lines": n, "mismatches": count, "detail": [m for m in mism if m], "tags": tags, "within_tol_not_bitexact": bitdiff}


# ---------------------------------------------------------------------------------------------
# known findings

def load_known():
    p = os.path.join(VERIF, "known_findings.json")
    if not os.path.exists(p):
        return []
    return json.load(open(p))


# ---------------------------------------------------------------------------------------------

class Family:
    """One harness family run for a property."""

    def __init__(self, name, rtol=None, atol_scale=0.0, args=None, thorough_only=False, compare=True, label=None, tol_by_model=None):
        self.name = name
        self.tol_by_model = tol_by_model
        self.label = label or name   # several runs of one family (e.g. K at two tolerances) need distinct labels
        self.rtol = rtol
        self.atol_scale = atol_scale
        self.args = args or []
        self.thorough_only = thorough_only
        self.compare = compare


class Check:
    def __init__(self, pid, props_modules, families, level="proof", trusted=None, assumptions=None,
                 pre_steps=None, extra_lake_targets=None, partial=None, explanation=None):
        self.pid = pid
        self.props_modules = props_modules
        self.families = families
        self.level = level
        self.trusted = trusted or []
        self.assumptions = assumptions or []
        self.pre_steps = pre_steps or []      # callables(check, ctx) -> list of problem dicts
        self.extra_lake_targets = extra_lake_targets or []
        self.partial = partial or []          # names of _partial theorems + what is missing
        self.explanation = explanation

    # -------------------------------------------------------------------------------------
    def run_family(self, harness, fam, seed, tier, workdir, replay=None):
        d = os.path.join(workdir, fam.label)
        os.makedirs(d, exist_ok=True)
        cmd = [harness, "gen", fam.name, "-seed", str(seed), "-tier", tier, "-dir", d]
        if replay:
            cmd += ["-replay", replay]
        cmd += fam.args
        t0 = time.time()
        # a family that does not finish (the code under test deadlocks or spins) must end as a verdict, not hang the check
        limit = float(os.environ.get("VERIF_FAMILY_TIMEOUT_S", "1500" if tier == "quick" else "7200"))
        import signal
        p = subprocess.Popen(cmd, cwd=d, env=dict(GOENV, GOMEMLIMIT="6GiB", OW_HARNESS=harness), stdout=subprocess.PIPE,
                             stderr=subprocess.PIPE, text=True, start_new_session=True)
        try:
            out, err = p.communicate(timeout=limit)
        except subprocess.TimeoutExpired:
            try:
                os.killpg(p.pid, signal.SIGKILL)
            except OSError:
                pass
            p.communicate()
            return {"family": fam.label, "fam_name": fam.name, "gen_s": round(time.time() - t0, 2),
                    "timeout": "family %s did not finish within %.0f s: the code under test hangs (deadlock / non-termination) on a generated case" % (fam.label, limit)}
        r = subprocess.CompletedProcess(cmd, p.returncode, out, err)
        res = {"family": fam.label, "fam_name": fam.name, "gen_s": round(time.time() - t0, 2)}
        if r.returncode != 0:
            res["harness_error"] = (r.stderr or "")[-3000:]
            return res
        stats = json.load(open(os.path.join(d, fam.name + ".stats.json")))
        res["stats"] = stats
        if fam.compare:
            ops = os.path.join(d, fam.name + ".ops")
            model = os.path.join(d, fam.name + ".model")
            t0 = time.time()
            with open(ops) as fi, open(model, "w") as fo:
                rr = subprocess.run([DRIVER], stdin=fi, stdout=fo, stderr=subprocess.PIPE)
            res["model_s"] = round(time.time() - t0, 2)
            if rr.returncode != 0:
                res["driver_error"] = rr.stderr.decode()[-2000:]
                return res
            res["cmp"] = compare_streams(os.path.join(d, fam.name + ".impl"), model, fam.rtol, fam.atol_scale,
                                         ops_path=ops, tol_by_model=fam.tol_by_model)
        return res

    # -------------------------------------------------------------------------------------
    def main(self, argv):
        import argparse
        ap = argparse.ArgumentParser()
        ap.add_argument("--tier", default=os.environ.get("VERIF_TIER", "quick"))
        ap.add_argument("--replay", default=None)
        ap.add_argument("--seed", default=None)
        a = ap.parse_args(argv)
        tier = a.tier if a.tier in ("quick", "thorough") else "quick"
        seed = int(a.seed if a.seed is not None else os.environ.get("VERIF_SEED", "1") or 1)
        try:
            code = self.execute(tier, seed, a.replay)
        except Internal as e:
            log("INTERNAL-ERROR %s: %s" % (self.pid, e))
            code = 2
        sys.exit(code)

    def execute(self, tier, seed, replay):
        t_start = time.time()
        pid = self.pid
        workdir = os.path.join(BUILD, "run", "%s-%d" % (pid, os.getpid()))
        shutil.rmtree(workdir, ignore_errors=True)
        os.makedirs(workdir)
        problems = []     # things that break proof obligations / correspondence
        info = {}

        # 1. harness from current tree
        harness, msg = build_harness()
        info["harness_build"] = msg if harness else "FAILED"
        if not harness:
            # Does the tree itself still compile? If not, this is not a verdict about the property.
            r = run(["go", "build", "./data/...", "./models/...", "./sim/...", "./util/..."], cwd=REPO, env=GOENV)
            if r.returncode != 0:
                raise Internal("the repository itself does not build:\n" + (r.stderr or "")[-3000:])
            # The tree compiles but the harness does not. If the compile errors are about identifiers of the repository's packages
            # (an API the correspondence relies on changed), the correspondence can no longer be established; any other compile
            # error is a defect of the harness itself and must not be mistaken for a verdict.
            if not re.search(r"openwater-core|\b(data|cdata|sim|owio|owjs|fn|routing|rr|storage|generation|functions|conversion|climate|units)\.[A-Z]\w*", msg):
                raise Internal("harness does not build (not related to the repository's API):\n" + msg[-3000:])
            path, kind = self.write_replay(pid, "no-failing-input-found", seed, tier, workdir, None,
                                           [{"kind": "correspondence", "name": "the harness no longer compiles against the tree "
                                             "(an API the correspondence relies on changed)", "detail": msg[-3000:]}], [])
            print("VIOLATION property=%s replay=%s no-failing-input-found" % (pid, path))
            ev = {"property_id": pid, "tier": tier, "seed": seed, "level": self.level,
                  "coverage": {"obligations": 1, "discharged": 0, "checker_cmd": "go build (harness against the tree)",
                               "trusted_base": self.trusted, "evaluations": 1, "distinct_nontrivial": 2,
                               "samples": ["harness build failed: " + msg[-300:]], "explanation": "harness does not compile against the tree",
                               "programs": 1, "disagreements_checked": 1},
                  "assumptions": self.assumptions, "wall_s": round(time.time() - t_start, 2), "violations": 1}
            os.makedirs(os.path.join(VERIF, "evidence"), exist_ok=True)
            json.dump(ev, open(os.path.join(VERIF, "evidence", pid + ".json"), "w"), indent=1)
            return 1
        hb = os.path.join(workdir, "owharness")
        shutil.copyfile(harness, hb)
        os.chmod(hb, 0o755)
        harness = hb

        ctx = {"workdir": workdir, "tier": tier, "seed": seed, "harness": harness, "info": info}

        # 2. tie A / property-specific pre-steps (may regenerate OW/Gen/*.lean) and 3. proofs: ONE critical section
        lean_section = Lock("lake")
        lean_section.__enter__()
        try:
            return self._execute_locked(tier, seed, replay, t_start, pid, workdir, problems, info, harness, ctx, lean_section)
        finally:
            if lean_section is not None and Lock._held.get("lake") and getattr(lean_section, "_open", True):
                lean_section.__exit__()

    def _execute_locked(self, tier, seed, replay, t_start, pid, workdir, problems, info, harness, ctx, lean_section):
        for step in self.pre_steps:
            problems += step(self, ctx) or []

        # 3. proofs
        targets = list(self.props_modules) + self.extra_lake_targets + ["owdriver"]
        ok, out = lake_build(targets)
        obligations = []
        discharged = []
        axioms_used = {}
        if not ok:
            # distinguish regenerated-facts failures (a proof obligation broke) from my own bugs
            gen_related = any(re.search(r"OW[/.]Gen", l) for l in out.splitlines() if "error" in l)
            if not gen_related:
                # A theorem OUTSIDE OW/Gen that is evaluated on regenerated data (e.g. `catalogue_only_specs : onlySpecs specs descs = true := by decide`)
                # fails in its own file. On the unchanged tree every module builds (setup and every run), and between trees only the regenerated
                # files differ: if they differ from the committed ones now, the failure is a broken obligation of the tree under test.
                try:
                    d = subprocess.run(["git", "-C", VERIF, "diff", "--quiet", "--", "lean/OW/Gen"], stdout=subprocess.PIPE, stderr=subprocess.PIPE)
                    gen_related = d.returncode == 1
                except Exception:
                    pass
            if not gen_related or not os.path.exists(DRIVER):
                raise Internal("lake build failed:\n" + out[-4000:])
            problems.append({"kind": "proof-obligation", "name": "lake build " + " ".join(self.props_modules),
                             "detail": out[-3000:]})
        for mod in self.props_modules:
            names, _ = props_theorems(mod)
            obligations += names
            if ok:
                res, bad, raw = audit_axioms(mod, names, workdir)
                for n in names:
                    if n in res and not [b for b in bad if b[0] == n]:
                        discharged.append(n)
                        for ax in res[n]:
                            axioms_used[ax] = axioms_used.get(ax, 0) + 1
                for n, why in bad:
                    problems.append({"kind": "proof-obligation", "name": n, "detail": why})
        forb = scan_forbidden()
        if forb:
            raise Internal("forbidden tokens in Lean sources: " + "; ".join(forb[:5]))
        if tier == "thorough" and ok:
            with Lock("lake"):
                for mod in self.props_modules:
                    r = run(["lake", "env", "leanchecker", mod], cwd=LEAN)
                    info.setdefault("leanchecker", {})[mod] = "ok" if r.returncode == 0 else (r.stdout + r.stderr)[-500:]
                    if r.returncode != 0:
                        problems.append({"kind": "proof-obligation", "name": "leanchecker " + mod, "detail": (r.stdout + r.stderr)[-500:]})

        # the Lean side is done: release the lock before the (long) family runs
        lean_section.__exit__()
        lean_section._open = False

        # 4+5. correspondence and oracle
        fam_results = []
        oracle_failures = list(ctx.get("oracle_failures", []))   # pre-steps may contribute failing inputs (e.g. C09 diffs)
        evaluations = 0
        distinct = 0
        samples = []
        hist = {}
        tags = {}
        exhaustive = None
        rules = []
        replay_lines = None
        replay_family = None
        if replay:
            rp = json.load(open(replay))
            replay_lines = rp.get("ops", [])
            replay_family = rp.get("family")
        for fam in self.families:
            if fam.thorough_only and tier != "thorough":
                continue
            rfile = None
            if replay_lines is not None:
                if replay_family and fam.label != replay_family:
                    continue
                mine = [l for l in replay_lines if l.split()[0] == fam.name]
                if not mine:
                    continue
                rfile = os.path.join(workdir, fam.name + ".replay.ops")
                open(rfile, "w").write("\n".join(mine) + "\n")
            fr = self.run_family(harness, fam, seed, tier, workdir, rfile)
            if "timeout" in fr:
                problems.append({"kind": "correspondence", "name": fr["timeout"], "detail": fr["timeout"], "family": fam.label})
                continue
            fam_results.append(fr)
            if "harness_error" in fr:
                raise Internal("harness family %s failed:\n%s" % (fam.name, fr["harness_error"]))
            if "driver_error" in fr:
                raise Internal("model driver failed on %s:\n%s" % (fam.name, fr["driver_error"]))
            st = fr["stats"]
            evaluations += st["cases"]
            distinct += st["distinct_nontrivial"]
            samples += st.get("samples") or []
            rules.append("%s: %s" % (fam.label, st.get("rule", "")))
            for k, v in (st.get("hist") or {}).items():
                hist[fam.label + ":" + k] = v
            if st.get("exhaustive"):
                exhaustive = True if exhaustive is None else exhaustive
            else:
                exhaustive = False
            for of in st.get("oracle_failures") or []:
                of["family"] = fam.label
                oracle_failures.append(of)
            if fam.compare:
                c = fr["cmp"]
                for k, v in c["tags"].items():
                    tags[fam.label + ":" + k] = v
                if c["mismatches"]:
                    problems.append({"kind": "correspondence", "name": "model≠implementation on family " + fam.label,
                                     "detail": c["detail"][:5], "count": c["mismatches"], "family": fam.label})

        # 6. verdict
        known = [k for k in load_known() if k.get("property") == pid]
        known_open = [k for k in known if k.get("status") == "known"]
        mismatch_cases = set()
        for fr in fam_results:
            if "cmp" in fr:
                for d in fr["cmp"]["detail"]:
                    mismatch_cases.add((fr["family"], str(d["case"])))
        known_hits = {}
        new_failures = []
        for of in oracle_failures:
            k = next((k for k in known_open if k.get("scope") == of["scope"]), None)
            if k is not None and (of["family"], str(of["case"])) not in mismatch_cases:
                known_hits.setdefault(k["id"], []).append(of)
            else:
                new_failures.append(of)
        for kid, ofs in known_hits.items():
            k = next(k for k in known_open if k["id"] == kid)
            print("KNOWN-FINDING: property=%s %s (%d cases this run, e.g. %s)" % (pid, k["text"], len(ofs), ofs[0]["what"][:160]))
        if replay is None:
            # every LISTED finding of this property is announced on every run, also when this run's generated cases did not reach it
            for k in known_open:
                if k["id"] not in known_hits:
                    print("KNOWN-FINDING: property=%s %s (listed in known_findings.json as %s; not reached by the cases generated in this run)"
                          % (pid, k["text"], k["id"]))

        violation = None
        if new_failures:
            of = new_failures[0]
            violation = self.write_replay(pid, "failing-input", seed, tier, workdir, of, problems, fam_results)
        elif problems:
            # proof obligation or correspondence broke without an oracle failure so far: widen the search
            found = None
            if tier == "quick" and replay is None:
                found = self.widen_search(harness, seed, workdir, known_open, fam_results)
            if found:
                violation = self.write_replay(pid, "failing-input", seed, tier, workdir, found, problems, fam_results)
            else:
                violation = self.write_replay(pid, "no-failing-input-found", seed, tier, workdir, None, problems, fam_results)

        wall = time.time() - t_start
        ev = {
            "property_id": pid, "tier": tier, "seed": seed, "level": self.level,
            "coverage": {
                "obligations": len(obligations), "discharged": len(discharged),
                "checker_cmd": "cd /verif/lean && lake build %s && lake env lean <#print axioms of every theorem>" % " ".join(self.props_modules)
                               + (" && lake env leanchecker <module>" if tier == "thorough" else ""),
                "trusted_base": ["Lean 4.33.0 kernel", "axioms used: " + (", ".join("%s(%d)" % kv for kv in sorted(axioms_used.items())) or "none")] + self.trusted,
                "theorems": obligations,
                "partial_theorems": self.partial,
                "evaluations": evaluations, "distinct_nontrivial": distinct,
                "rule": " || ".join(rules),
                "samples": (samples[:12] + list(info.get("samples", []))[:12]) or ["(no sampled cases: proof-only run)"],
                "exhaustive": bool(exhaustive) or bool(info.get("exhaustive")),
                "input_distribution": hist, "model_branch_tags": tags,
                "correspondence": [{"family": fr["family"], "lines": fr.get("cmp", {}).get("lines"),
                                    "mismatches": fr.get("cmp", {}).get("mismatches"),
                                    "within_tol_not_bitexact": fr.get("cmp", {}).get("within_tol_not_bitexact"),
                                    "gen_s": fr.get("gen_s"), "model_s": fr.get("model_s"),
                                    "oracle_evals": fr["stats"].get("oracle_evals"),
                                    "notes": fr["stats"].get("notes"), "extra": fr["stats"].get("extra")} for fr in fam_results],
                "oracle_failures": len(oracle_failures), "known_findings_printed": sorted(known_hits.keys()),
                "problems": [{"kind": p["kind"], "name": p["name"]} for p in problems],
                "info": info,
            },
            "assumptions": self.assumptions,
            "wall_s": round(wall, 2),
            "violations": 1 if violation else 0,
        }
        if self.explanation:
            ev["coverage"]["explanation"] = self.explanation
        if self.level == "translation_validation":
            ev["coverage"].setdefault("programs", info.get("programs", 0))
            ev["coverage"].setdefault("disagreements_checked", info.get("disagreements_checked", 0))
        os.makedirs(os.path.join(VERIF, "evidence"), exist_ok=True)
        with open(os.path.join(VERIF, "evidence", pid + ".json"), "w") as f:
            json.dump(ev, f, indent=1, ensure_ascii=False)
        if not os.environ.get("VERIF_KEEP"):
            shutil.rmtree(workdir, ignore_errors=True)
        if violation:
            path, kind = violation
            print("VIOLATION property=%s replay=%s%s" % (pid, path, " no-failing-input-found" if kind == "no-failing-input-found" else ""))
            return 1
        print("OK property=%s tier=%s seed=%d theorems=%d/%d cases=%d wall=%.1fs" % (pid, tier, seed, len(discharged), len(obligations), evaluations, wall))
        return 0

    # -------------------------------------------------------------------------------------
    def widen_search(self, harness, seed, workdir, known_open, fam_results):
        """Correspondence/proof broke but the oracle has no failing input yet: search wider
        (thorough-size generators, several seeds) for an input on which the property itself fails."""
        budget_end = time.time() + float(os.environ.get("VERIF_WIDEN_S", "240"))
        broken = [fr["family"] for fr in fam_results if fr.get("cmp", {}).get("mismatches")]
        fams = [f for f in self.families if f.label in broken] or self.families
        for s in (seed, seed + 1, seed + 2):
            for fam in fams:
                if time.time() > budget_end:
                    return None
                wd = os.path.join(workdir, "widen-%d" % s)
                fr = self.run_family(harness, Family(fam.name, fam.rtol, fam.atol_scale, fam.args, compare=False, label=fam.label), s, "thorough", wd)
                if "stats" not in fr:
                    continue
                for of in fr["stats"].get("oracle_failures") or []:
                    if not any(k.get("scope") == of["scope"] for k in known_open):
                        of["family"] = fam.label
                        of["found_by"] = "widened search seed=%d tier=thorough" % s
                        return of
        return None

    def write_replay(self, pid, kind, seed, tier, workdir, of, problems, fam_results):
        d = os.path.join(VERIF, "replays", pid)
        os.makedirs(d, exist_ok=True)
        path = os.path.join(d, "%s-%d-%d.json" % (time.strftime("%Y%m%dT%H%M%S"), seed, os.getpid()))
        rp = {"property": pid, "kind": kind, "seed": seed, "tier": tier,
              "broken": [{"kind": p["kind"], "name": p["name"], "detail": p.get("detail")} for p in problems]}
        if of is not None:
            rp["oracle"] = of
            rp["family"] = of.get("family")
            rp["ops"] = [of["op"]] if of.get("op") else []
        else:
            ops = []
            for fr in fam_results:
                if fr.get("cmp", {}).get("mismatches"):
                    ids = {str(x["case"]) for x in fr["cmp"]["detail"]}
                    opsf = os.path.join(workdir, fr["family"], fr["fam_name"] + ".ops")
                    if os.path.exists(opsf):
                        for line in open(opsf):
                            t = line.split(None, 2)
                            if len(t) > 1 and t[1] in ids:
                                ops.append(line.rstrip("\n")[:400000])
                                if len(ops) >= 10:
                                    break
            rp["ops"] = ops
            rp["family"] = next((fr["family"] for fr in fam_results if fr.get("cmp", {}).get("mismatches")), None)
            rp["note"] = ("no input violating the property itself was found; the listed theorem(s)/correspondence no longer "
                          "check, so the property is no longer shown to hold for the current tree")
        with open(path, "w") as f:
            json.dump(rp, f, indent=1, ensure_ascii=False)
        return path, kind
