"""C03 pre-step: build libopenwater.so (the exported C entry point) and the C driver from the current tree."""
import os
import shutil
import subprocess
import time

from vlib import core


def build_cabi(check, ctx):
    t0 = time.time()
    hdir = core.HARNESS
    # honour OW_REPO the same way build_harness does: the harness copy with the re-pointed replace directive
    if os.path.realpath(core.REPO) != "/repo":
        import hashlib
        tagd = hashlib.sha1(os.path.realpath(core.REPO).encode()).hexdigest()[:10]
        hdir = os.path.join(core.BUILD, "harness-" + tagd)
    out = os.path.join(ctx["workdir"], "cabi")
    os.makedirs(out, exist_ok=True)
    so = os.path.join(out, "libopenwater.so")
    r = subprocess.run(["go", "build", "-tags", "verif", "-buildmode=c-shared", "-o", so,
                        "github.com/flowmatters/openwater-core/libopenwater"], cwd=hdir, env=core.GOENV,
                       stdout=subprocess.PIPE, stderr=subprocess.PIPE, text=True)
    if r.returncode != 0:
        raise core.Internal("libopenwater.so does not build:\n" + r.stderr[-3000:])
    drv = os.path.join(out, "driver")
    r = subprocess.run(["gcc", "-O1", "-o", drv, os.path.join(core.HARNESS, "cabi", "driver.c"), "-I" + out, "-L" + out,
                        "-lopenwater", "-Wl,-rpath," + out], stdout=subprocess.PIPE, stderr=subprocess.PIPE, text=True)
    if r.returncode != 0:
        raise core.Internal("C driver does not build:\n" + r.stderr[-3000:])
    os.environ["OW_CABI_DRIVER"] = drv
    core.GOENV["OW_CABI_DRIVER"] = drv
    ctx["info"]["cabi_build_s"] = round(time.time() - t0, 1)
    return []
