"""Property C09 — checked-in generated code is exactly what the generators produce; every OW-SPEC model is
registered in the catalogue with a Description that lists what the spec declares (stdlib only).

Two pre-steps for vlib.core.Check:

  regen_step(check, ctx)    copies the working tree (no .git) to a scratch directory outside /repo and /verif, builds the
                            project's generators FROM THAT COPY (ow-specgen from pre/ow-specgen, genny at the version pinned
                            in go.mod), parses every `//go:generate` directive out of the Go sources and re-runs it, runs
                            ow-specgen on every .go file that mentions OW-SPEC, and compares every produced file byte for
                            byte with the checked-in one. `generated_*.go` / `gen-*.go` files that nothing produces, spec
                            blocks without a wrapper, and generators that touch anything else are reported too.
  catalog_step(check, ctx)  owextract (independent reader of the OW-SPEC blocks, harness/cmd/owextract) vs
                            `owharness catalog` (the real sim.Catalog and every Description()): names registered, Go type and
                            package, parameters (order, default, range, dimensions), inputs, states, outputs in spec order.

Both return problem dicts {"kind": "correspondence", "name", "detail"} and, because for this property the differing
file IS the failing input, also append {"case","scope","what","op","family"} entries to ctx["oracle_failures"].
The scratch copy and everything built in it are removed before the step returns.
"""
import concurrent.futures
import difflib
import hashlib
import json
import os
import re
import shutil
import subprocess
import tempfile
import time

from vlib import core
from vlib.core import GOENV, HARNESS, Internal, log

CANDIDATE = re.compile(r"^(generated_.*|gen-.*)\.go$")
DIRECTIVE = re.compile(r"^//go:generate[ \t]+(.*?)\s*$")
WRITING = re.compile(r"^Writing to (.+)$", re.M)
MAX_DIFF = 6000
WORKERS = 16


# ---------------------------------------------------------------------------------------------
# helpers

def _repo():
    return os.path.realpath(core.REPO)


def _walk(root):
    """relative slash paths of all regular files under root (no .git)."""
    out = []
    for d, dirs, files in os.walk(root):
        dirs[:] = sorted(x for x in dirs if x != ".git")
        for f in sorted(files):
            p = os.path.join(d, f)
            if os.path.isfile(p) and not os.path.islink(p):
                out.append(os.path.relpath(p, root).replace(os.sep, "/"))
    return out


def _sha(path):
    h = hashlib.sha256()
    with open(path, "rb") as f:
        h.update(f.read())
    return h.hexdigest()


def _snapshot(root):
    return {r: _sha(os.path.join(root, r)) for r in _walk(root)}


def _split_directive(text, env):
    """Words of a //go:generate line, as `go generate` splits them: blank-separated, "..." is a Go string,
    $NAME / ${NAME} expanded from env (unknown names expand to the empty string)."""
    words = []
    i, n = 0, len(text)
    while i < n:
        while i < n and text[i] in " \t":
            i += 1
        if i >= n:
            break
        if text[i] == '"':
            j = i + 1
            while j < n and text[j] != '"':
                j += 2 if text[j] == "\\" else 1
            if j >= n:
                raise Internal("unterminated quote in go:generate directive: " + text)
            w = json.loads(text[i:j + 1])   # Go and JSON agree on the escapes used in practice (\" \\ \n \t \uXXXX)
            i = j + 1
        else:
            j = i
            while j < n and text[j] not in " \t":
                j += 1
            w = text[i:j]
            i = j
        w = re.sub(r"\$(\w+|\{\w+\})", lambda m: env.get(m.group(1).strip("{}"), ""), w)
        words.append(w)
    return words


def _go_package(src):
    m = re.search(r"^\s*package\s+(\w+)", re.sub(r"/\*.*?\*/|//[^\n]*", "", src, flags=re.S), flags=re.M)
    return m.group(1) if m else ""


def _go_env_values():
    r = core.run(["go", "env", "GOARCH", "GOOS", "GOROOT"], env=GOENV)
    v = (r.stdout or "").split("\n")
    return {"GOARCH": v[0].strip(), "GOOS": v[1].strip() if len(v) > 1 else "", "GOROOT": v[2].strip() if len(v) > 2 else ""}


def _udiff(a, b, name):
    la = a.decode("utf-8", "replace").splitlines(keepends=True)
    lb = b.decode("utf-8", "replace").splitlines(keepends=True)
    d = "".join(difflib.unified_diff(la, lb, "checked-in/" + name, "regenerated/" + name, n=2))
    if not d:   # differs only in bytes that decode alike (or final newline)
        d = "files differ in raw bytes only (len %d vs %d)\n" % (len(a), len(b))
    if len(d) > MAX_DIFF:
        d = d[:MAX_DIFF] + "\n… (diff truncated, %d characters in all)\n" % len(d)
    return d


def _first_difference(a, b):
    la = a.decode("utf-8", "replace").splitlines()
    lb = b.decode("utf-8", "replace").splitlines()
    for i in range(max(len(la), len(lb))):
        x = la[i] if i < len(la) else "<end of file>"
        y = lb[i] if i < len(lb) else "<end of file>"
        if x != y:
            return "line %d: checked-in %r, generator output %r" % (i + 1, x[:200], y[:200])
    return "same lines, different bytes (length %d vs %d)" % (len(a), len(b))


def _oracle(ctx, scope, what):
    ofs = ctx.setdefault("oracle_failures", [])
    ofs.append({"case": len(ofs), "scope": scope, "what": what[:1500], "op": "", "family": "C09"})


def _problem(problems, ctx, name, detail, scope, what=None):
    problems.append({"kind": "correspondence", "name": name, "detail": detail})
    _oracle(ctx, scope, what if what is not None else (detail if isinstance(detail, str) else json.dumps(detail)))


def build_owextract(ctx):
    """The independent spec reader; it imports nothing from the repository (standard library only)."""
    out = os.path.join(ctx["workdir"], "owextract")
    if os.path.exists(out):
        return out
    with core.Lock("gobuild-owextract"):
        r = core.run(["go", "build", "-o", out, "./cmd/owextract"], cwd=HARNESS, env=GOENV)
    if r.returncode != 0:
        raise Internal("owextract does not build:\n" + (r.stderr or "")[-3000:])
    return out


def extract_specs(ctx, root=None):
    """JSON of owextract on the working tree (cached in ctx)."""
    if root is None and "c09_specs" in ctx:
        return ctx["c09_specs"]
    exe = build_owextract(ctx)
    r = core.run([exe, root or _repo()], env=GOENV)
    if r.returncode != 0:
        raise Internal("owextract failed:\n" + (r.stderr or "")[-3000:])
    d = json.loads(r.stdout)
    if root is None:
        ctx["c09_specs"] = d
    return d


# ---------------------------------------------------------------------------------------------
# step 1: regenerate and compare

def _module_requires(gomod):
    req = []
    for m in re.finditer(r"^\s*(?:require\s+)?([\w./~-]+\.[\w./~-]+/[\w./~-]+)\s+v[\w.+-]+", gomod, flags=re.M):
        req.append(m.group(1))
    return req


def regen_step(check, ctx):
    t0 = time.time()
    info = ctx["info"]
    problems = []
    repo = _repo()
    top = tempfile.mkdtemp(prefix="c09-")
    rt = os.path.realpath(top)
    for forbidden in (repo, os.path.realpath(core.VERIF), "/repo"):
        if rt == forbidden or rt.startswith(forbidden + os.sep):
            shutil.rmtree(top, ignore_errors=True)
            raise Internal("scratch directory %s lies inside %s" % (rt, forbidden))
    try:
        problems = _regen(ctx, info, repo, top)
    finally:
        shutil.rmtree(top, ignore_errors=True)
    info["c09_regen_s"] = round(time.time() - t0, 2)
    return problems


def _regen(ctx, info, repo, top):
    problems = []
    scratch = os.path.join(top, "tree")
    bindir = os.path.join(top, "bin")
    os.makedirs(bindir)
    shutil.copytree(repo, scratch, symlinks=True, ignore=lambda d, names: [n for n in names if n == ".git"])

    files = _walk(scratch)
    gofiles = [f for f in files if f.endswith(".go")]
    src = {}
    for f in gofiles:
        with open(os.path.join(scratch, f), "rb") as fh:
            src[f] = fh.read().decode("utf-8", "replace")

    # --- the jobs: every //go:generate directive, every file that mentions OW-SPEC
    genv = _go_env_values()
    directives = []
    aliases = {}
    for f in gofiles:
        for ln, line in enumerate(src[f].split("\n"), 1):
            m = DIRECTIVE.match(line.rstrip("\r"))
            if not m:
                continue
            env = dict(genv, GOFILE=os.path.basename(f), GOLINE=str(ln), GOPACKAGE=_go_package(src[f]), DOLLAR="$")
            words = _split_directive(m.group(1), env)
            if not words:
                continue
            if words[0] == "-command":
                if len(words) >= 3:
                    aliases[(f, words[1])] = words[2:]
                continue
            if (f, words[0]) in aliases:
                words = aliases[(f, words[0])] + words[1:]
            directives.append({"file": f, "line": ln, "text": m.group(1), "words": words, "env": env})
    specfiles = [f for f in gofiles if "OW-SPEC" in src[f]]

    # --- build the generators from the scratch copy
    tools = {"go": shutil.which("go", path=GOENV.get("PATH"))}
    gomod = open(os.path.join(scratch, "go.mod")).read() if os.path.exists(os.path.join(scratch, "go.mod")) else ""
    builds = {}
    if os.path.isdir(os.path.join(scratch, "pre", "ow-specgen")):
        builds["ow-specgen"] = "./pre/ow-specgen"
    for d in directives:
        c = d["words"][0]
        if c in tools or c in builds:
            continue
        mods = [r for r in _module_requires(gomod) if r.rsplit("/", 1)[-1] == c]
        if not mods:
            raise Internal("go:generate directive %s:%d uses command %r, which is neither `go`, the project's ow-specgen "
                           "nor a module required by go.mod" % (d["file"], d["line"], c))
        builds[c] = mods[0]

    def build(item):
        name, pkg = item
        out = os.path.join(bindir, name)
        r = core.run(["go", "build", "-o", out, pkg], cwd=scratch, env=GOENV)
        return name, pkg, out, r

    with concurrent.futures.ThreadPoolExecutor(WORKERS) as ex:
        for name, pkg, out, r in ex.map(build, sorted(builds.items())):
            if r.returncode != 0:
                if pkg.startswith("./"):
                    # the project's own generator no longer compiles: nothing it generated can be re-derived
                    _problem(problems, ctx, "generator does not build: " + pkg, (r.stderr or "")[-3000:], "generator:" + pkg)
                else:
                    raise Internal("cannot build generator %s (module cache?):\n%s" % (pkg, (r.stderr or "")[-3000:]))
            else:
                tools[name] = out
    info["c09_generators"] = {k: v for k, v in sorted(builds.items())}

    # --- remove every candidate output, snapshot, run, snapshot
    candidates = [f for f in files if CANDIDATE.match(os.path.basename(f))]
    for f in candidates:
        os.remove(os.path.join(scratch, f))
    before = _snapshot(scratch)

    jobs = []
    for d in directives:
        exe = tools.get(d["words"][0])
        if exe is None:
            continue   # its build failure is already a problem
        jobs.append({"label": "%s:%d //go:generate %s" % (d["file"], d["line"], d["text"]), "cmd": [exe] + d["words"][1:],
                     "cwd": os.path.join(scratch, os.path.dirname(d["file"])), "env": dict(GOENV, **d["env"]), "kind": "directive"})
    if "ow-specgen" in tools:
        for f in specfiles:
            jobs.append({"label": "ow-specgen ./" + f, "cmd": [tools["ow-specgen"], "./" + f], "cwd": scratch, "env": GOENV,
                         "kind": "spec", "file": f})

    def runjob(j):
        try:
            r = subprocess.run(j["cmd"], cwd=j["cwd"], env=j["env"], stdout=subprocess.PIPE, stderr=subprocess.PIPE,
                               stdin=subprocess.DEVNULL, timeout=300)
            j["rc"], j["out"], j["err"] = r.returncode, r.stdout.decode("utf-8", "replace"), r.stderr.decode("utf-8", "replace")
        except subprocess.TimeoutExpired:
            j["rc"], j["out"], j["err"] = -1, "", "timed out after 300 s"
        return j

    with concurrent.futures.ThreadPoolExecutor(WORKERS) as ex:
        jobs = list(ex.map(runjob, jobs))
    after = _snapshot(scratch)

    producer = {}    # output path -> labels that announced it
    for j in jobs:
        if j["rc"] != 0:
            _problem(problems, ctx, "generator failed: " + j["label"], "exit %s\n%s\n%s" % (j["rc"], j["out"][-1500:], j["err"][-1500:]),
                     "generator:" + j["label"])
        if j["kind"] == "spec":
            for m in WRITING.finditer(j["out"]):
                producer.setdefault(os.path.normpath(m.group(1)).replace(os.sep, "/"), []).append(j["label"])
        else:
            for w in j["cmd"][1:]:
                m = re.match(r"^--?out=(.+)$", w)
                if m:
                    rel = os.path.relpath(os.path.join(j["cwd"], m.group(1)), scratch).replace(os.sep, "/")
                    producer.setdefault(rel, []).append(j["label"])
    for p, labels in sorted(producer.items()):
        if len(labels) > 1:
            _problem(problems, ctx, "two generator runs write the same file: " + p, "; ".join(labels), "generated:" + p)

    # --- compare
    produced = sorted(p for p in after if after[p] != before.get(p))
    compared = 0
    identical = 0
    samples = []
    for p in produced:
        compared += 1
        with open(os.path.join(scratch, p), "rb") as fh:
            new = fh.read()
        by = "; ".join(producer.get(p, ["(not announced by any generator run)"]))
        rp = os.path.join(repo, p)
        if not os.path.isfile(rp):
            _problem(problems, ctx, "generated file missing from the tree (spec without wrapper / directive output not checked in): " + p,
                     "%s produces %s (%d bytes) but the tree has no such file" % (by, p, len(new)), "generated:" + p)
            continue
        with open(rp, "rb") as fh:
            old = fh.read()
        if old == new:
            identical += 1
            if len(samples) < 8 or p.rsplit("/", 1)[-1].startswith("gen-"):
                samples.append("%s: %d bytes, %d lines, sha256 %s — identical to the output of [%s]"
                               % (p, len(new), new.count(b"\n"), after[p][:16], by))
        else:
            problems.append({"kind": "correspondence", "name": "generated file differs: " + p,
                             "detail": "produced by: %s\n%s" % (by, _udiff(old, new, p))})
            _oracle(ctx, "generated:" + p, _first_difference(old, new))
    extra = [f for f in candidates if f not in after]
    for p in extra:
        _problem(problems, ctx, "extra generated file (no directive or spec produces it): " + p,
                 "%s is named like generator output but none of the %d directives / %d spec files regenerates it"
                 % (p, len(directives), len(specfiles)), "generated:" + p)
    for p in sorted(before):
        if p not in after:
            _problem(problems, ctx, "generator removed a file: " + p, p, "generated:" + p)

    # --- every spec block has its wrapper (independent reader of the blocks)
    specs = extract_specs(ctx)
    missing_wrappers = 0
    for s in specs["specs"]:
        w = "%s/generated_%s.go" % (s["dir"], s["model"])
        compared += 1
        if w not in produced:
            missing_wrappers += 1
            _problem(problems, ctx, "spec without wrapper: model %s (%s:%d)" % (s["model"], s["file"], s["line"]),
                     "ow-specgen produced no %s for the OW-SPEC block of %s" % (w, s["model"]), "generated:" + w)
    wrappers = [p for p in produced if os.path.basename(p).startswith("generated_")]
    declared = {"%s/generated_%s.go" % (s["dir"], s["model"]) for s in specs["specs"]}
    for p in wrappers:
        compared += 1
        if p not in declared:
            _problem(problems, ctx, "wrapper without spec block (independent reader): " + p,
                     "ow-specgen wrote %s but owextract finds no OW-SPEC block declaring that model" % p, "generated:" + p)

    if not produced and not problems:
        raise Internal("no generator produced any file (%d directives, %d spec files)" % (len(directives), len(specfiles)))

    info["programs"] = info.get("programs", 0) + len(produced)
    info["disagreements_checked"] = info.get("disagreements_checked", 0) + compared + len(extra)
    info["c09_files"] = {"directives": len(directives), "spec_files": len(specfiles), "spec_blocks": len(specs["specs"]),
                         "generated_files_compared": len(produced), "identical": identical,
                         "genny_outputs": len([p for p in produced if os.path.basename(p).startswith("gen-")]),
                         "model_wrappers": len(wrappers), "candidates_in_tree": len(candidates), "extra": len(extra),
                         "specs_without_wrapper": missing_wrappers}
    info["c09_directives"] = ["%s:%d %s" % (d["file"], d["line"], d["text"]) for d in directives]
    info.setdefault("samples", []).extend(samples)
    info["disagreements_found"] = info.get("disagreements_found", 0) + len(problems)
    log("C09 regenerate: %d directives, %d spec files -> %d files compared, %d identical, %d problems"
        % (len(directives), len(specfiles), len(produced), identical, len(problems)))
    return problems


# ---------------------------------------------------------------------------------------------
# Lean facts: the same two data sets as OW/Gen/Catalog.lean, `checkCatalog specs descs = true` by kernel evaluation

GEN_LEAN = os.path.join(core.LEAN, "OW", "Gen", "Catalog.lean")


def _lstr(s):
    out = ['"']
    for ch in s:
        o = ord(ch)
        if ch == '"' or ch == "\\":
            out.append("\\" + ch)
        elif ch == "\n":
            out.append("\\n")
        elif ch == "\t":
            out.append("\\t")
        elif o < 32 or o == 127:
            out.append("\\x%02x" % o)
        else:
            out.append(ch)
    out.append('"')
    return "".join(out)


def _llist(xs):
    return "[" + ", ".join(xs) + "]"


def _lbool(b):
    return "true" if b else "false"


def _lpar(name, dims, default, lo, hi, lo_open, hi_open):
    return "⟨%s, %s, %s, %s, %s, %s, %s⟩" % (_lstr(name), _llist(_lstr(d) for d in dims), int(default), int(lo), int(hi),
                                              _lbool(lo_open), _lbool(hi_open))


def _lmodel(name, typ, pkg, pars, inputs, states, outputs):
    return ("  { name := %s, type := %s, pkg := %s,\n    params := %s,\n    inputs := %s, states := %s, outputs := %s }"
            % (_lstr(name), _lstr(typ), _lstr(pkg), "[" + ",\n      ".join(pars) + "]",
               _llist(_lstr(x) for x in inputs), _llist(_lstr(x) for x in states), _llist(_lstr(x) for x in outputs)))


def lean_catalog_source(specs, cat, module):
    sm = []
    for s in specs["specs"]:
        pars = [_lpar(p["name"], p["dims"], p["default_bits"], p["min_bits"], p["max_bits"], p["min_open"], p["max_open"])
                for p in s["parameters"]]
        sm.append(_lmodel(s["model"], s["model"], (module + "/" + s["dir"]) if module else s["dir"], pars,
                          s["inputs"], s["states"], s["outputs"]))
    dm = []
    for m in cat["models"]:
        pars = [_lpar(p["name"], p["dims"], p["default_bits"], p["min_bits"], p["max_bits"], p["min_open"], p["max_open"])
                for p in m["parameters"]]
        dm.append(_lmodel(m["key"], m["type"], m["pkgpath"], pars, m["inputs"], m["states"], m["outputs"]))
    return """import OW.Spec.CatalogCheck
/-!
GENERATED by /verif/vlib/c09.py on every run of `bin/check C09` from the current working tree — do not edit.
`specs`: every OW-SPEC block as read by the independent extractor (harness/cmd/owextract).
`descs`: every key of the real `sim.Catalog` with its `Description()` (harness tool `owharness catalog`).
Numbers are IEEE-754 bit patterns. The theorem is evaluated by the Lean kernel.
-/
namespace OW.Gen.Catalog
open OW.Spec.Catalog

def specs : List Model := [
%s]

def descs : List Model := [
%s]

/-- Every OW-SPEC model is registered in the catalogue under its name (type of that name, spec's package) and its
Description lists the spec's parameters (default, closed range, dimensions), inputs, states and outputs in spec order;
no two spec blocks declare the same name. Evaluated by the kernel on the data above. -/
theorem catalog_matches : checkCatalog specs descs = true := by decide +kernel

/-- non-vacuity: the data is not empty -/
example : specs.length = %d ∧ descs.length = %d := by decide

end OW.Gen.Catalog
""" % (",\n".join(sm), ",\n".join(dm), len(sm), len(dm))


def write_lean_catalog(ctx, specs, cat, module):
    """(Re)writes OW/Gen/Catalog.lean when its content changed (so an unchanged tree costs no Lean rebuild)."""
    src = lean_catalog_source(specs, cat, module)
    old = None
    if os.path.exists(GEN_LEAN):
        with open(GEN_LEAN, encoding="utf-8") as f:
            old = f.read()
    if old != src:
        os.makedirs(os.path.dirname(GEN_LEAN), exist_ok=True)
        tmp = GEN_LEAN + ".%d.tmp" % os.getpid()
        with open(tmp, "w", encoding="utf-8") as f:
            f.write(src)
        os.replace(tmp, GEN_LEAN)
    ctx["info"]["c09_lean"] = {"file": "lean/OW/Gen/Catalog.lean", "rewritten": old != src, "bytes": len(src.encode("utf-8")),
                               "sha256": hashlib.sha256(src.encode("utf-8")).hexdigest()[:16]}


# ---------------------------------------------------------------------------------------------
# step 2: catalogue vs spec blocks

def _f(s):
    return float(s)


def _feq(a, b):
    x, y = _f(a), _f(b)
    return x == y or (x != x and y != y)


def catalog_step(check, ctx):
    t0 = time.time()
    info = ctx["info"]
    problems = []
    specs = extract_specs(ctx)
    r = core.run([ctx["harness"], "catalog"], env=GOENV)
    if r.returncode != 0:
        raise Internal("owharness catalog failed:\n" + (r.stderr or "")[-3000:])
    cat = json.loads(r.stdout)
    models = {m["key"]: m for m in cat["models"]}
    module = ""
    gm = os.path.join(_repo(), "go.mod")
    if os.path.exists(gm):
        m = re.search(r"^module\s+(\S+)", open(gm).read(), flags=re.M)
        module = m.group(1) if m else ""

    write_lean_catalog(ctx, specs, cat, module)

    n = [0]
    text_diff = []
    open_range = []

    def bad(model, field, what, spec=None, got=None):
        detail = {"model": model, "field": field, "what": what}
        if spec is not None:
            detail["spec"] = spec
        if got is not None:
            detail["catalogue"] = got
        problems.append({"kind": "correspondence", "name": "catalogue ≠ spec: %s.%s" % (model, field), "detail": detail})
        _oracle(ctx, "catalog:%s.%s" % (model, field),
                "%s: %s%s%s" % (model, what, "; spec: %s" % json.dumps(spec) if spec is not None else "",
                                "; catalogue: %s" % json.dumps(got) if got is not None else ""))

    def check_eq(model, field, spec, got, what):
        n[0] += 1
        if spec != got:
            if sorted(spec) == sorted(got) and isinstance(spec, list):
                what += " (same entries, different order)"
            bad(model, field, what, spec, got)

    for e in specs.get("errors") or []:
        n[0] += 1
        bad("(tree)", "scan", "source not readable by the independent spec reader: " + e)
    seen = {}
    for s in specs["specs"]:
        name = s["model"]
        where = "%s:%d" % (s["file"], s["line"])
        for e in s["errors"]:
            bad(name, "spec", "OW-SPEC block at %s not readable by the independent reader: %s" % (where, e))
        n[0] += 1
        if name in seen:
            bad(name, "name", "declared by two spec blocks (%s and %s): one registration overwrites the other" % (seen[name], where))
            continue
        seen[name] = where
        n[0] += 1
        if name not in models:
            bad(name, "registration", "declared at %s but not a key of sim.Catalog" % where, name, sorted(models)[:60])
            continue
        m = models[name]
        n[0] += 1
        if m.get("panic"):
            bad(name, "Description", "factory or Description() panicked: " + m["panic"])
            continue
        check_eq(name, "type", name, m["type"], "sim.Catalog[%r] builds a different type" % name)
        if module:
            check_eq(name, "package", module + "/" + s["dir"], m["pkgpath"], "registered type lives in another package than the spec")
        check_eq(name, "Inputs", s["inputs"], m["inputs"], "Description().Inputs is not the spec's input list")
        check_eq(name, "States", s["states"], m["states"], "Description().States is not the spec's state list")
        check_eq(name, "Outputs", s["outputs"], m["outputs"], "Description().Outputs is not the spec's output list")
        check_eq(name, "Parameters", [p["name"] for p in s["parameters"]], [p["name"] for p in m["parameters"]],
                 "Description().Parameters does not list the spec's parameters in order")
        check_eq(name, "Dimensions", sorted(s["dimensions"]), sorted(m["dimensions"]), "Description().Dimensions is not the set of dimensions the spec uses")
        got = {p["name"]: p for p in m["parameters"]}
        for p in s["parameters"]:
            g = got.get(p["name"])
            if g is None:
                continue   # already reported through the name list
            f = "Parameters.%s" % p["name"]
            check_eq(name, f + ".Dimensions", p["dims"], g["dims"], "dimensions of the parameter table differ")
            n[0] += 1
            if not _feq(p["default"], g["default"]):
                bad(name, f + ".Default", "default differs" + ("" if p["has_default"] else " (spec gives none: 0 expected)"), p["default"], g["default"])
            n[0] += 1
            if p["min_open"] or p["max_open"]:
                # `[x,]` / `[,x]`: an open end. The catalogue can express it (RangeOpen); anything else loses the spec's range.
                ok = (g["min_open"] == p["min_open"] and g["max_open"] == p["max_open"]
                      and (p["min_open"] or _feq(p["min"], g["min"])) and (p["max_open"] or _feq(p["max"], g["max"])))
                if not ok:
                    w = ("%s: spec range %s has an open end; Description() reports Range [%s,%s] RangeOpen [%s,%s] and text %r"
                         % (name, p["raw"][:p["raw"].find("]") + 1], g["min"], g["max"], str(g["min_open"]).lower(), str(g["max_open"]).lower(),
                            g["description"][:60]))
                    open_range.append({"model": name, "parameter": p["name"], "spec": p["raw"], "catalogue_range": [g["min"], g["max"]],
                                       "catalogue_text": g["description"]})
                    # reported through the oracle channel only: scope is matched against known_findings.json
                    _oracle(ctx, "catalog:%s.%s:half-open-range" % (name, p["name"]), w)
            else:
                if not (_feq(p["min"], g["min"]) and _feq(p["max"], g["max"])) or g["min_open"] or g["max_open"]:
                    bad(name, f + ".Range", "range differs" + ("" if p["has_range"] else " (spec gives none: [0,0] expected)"),
                        [p["min"], p["max"]], [g["min"], g["max"], g["min_open"], g["max_open"]])
            # free text: informational only (the generator keeps the text up to the first comma)
            if g["description"].strip() != p["text"].strip():
                text_diff.append("%s.%s: spec %r, catalogue %r" % (name, p["name"], p["text"][:80], g["description"][:80]))
    unspecified = sorted(k for k in models if k not in seen)
    info["programs"] = info.get("programs", 0)
    info["disagreements_checked"] = info.get("disagreements_checked", 0) + n[0]
    info["c09_catalog"] = {"spec_models": len(specs["specs"]), "catalogue_keys": len(cat["keys"]), "field_comparisons": n[0],
                           "parameters": sum(len(s["parameters"]) for s in specs["specs"]),
                           "catalogue_entries_without_spec": unspecified,
                           "half_open_ranges_not_represented": open_range,
                           "free_text_differences (informational)": text_diff[:20],
                           "go_files_scanned": specs.get("go_files_scanned")}
    ex = []
    for s in specs["specs"]:
        if s["model"] in models and len(ex) < 4 and (s["parameters"] or not ex):
            p = s["parameters"][0] if s["parameters"] else None
            ex.append("catalogue %s (%s): %d parameters%s, inputs %s, states %s, outputs %s — equal to Description()"
                      % (s["model"], s["file"], len(s["parameters"]),
                         (" (first: %s default %s range [%s,%s] dims %s)" % (p["name"], p["default"], p["min"], p["max"], p["dims"])) if p else "",
                         s["inputs"], s["states"], s["outputs"]) if not any(q["detail"].get("model") == s["model"] for q in problems if isinstance(q.get("detail"), dict))
                      else "catalogue %s: differs (see problems)" % s["model"])
    info.setdefault("samples", []).extend(ex)
    info["c09_catalog_s"] = round(time.time() - t0, 2)
    info["disagreements_checked_rule"] = ("number of individual comparisons made: one byte-comparison per regenerated file, one existence check per "
                                          "candidate/spec/wrapper, one per catalogue field (name, type, package, each list, each parameter's "
                                          "dimensions/default/range)")
    info["disagreements_found"] = len(problems) + info.get("disagreements_found", 0)
    info["exhaustive"] = True   # all directives, all files mentioning OW-SPEC, all spec blocks, all catalogue keys of the present tree
    log("C09 catalogue: %d spec models, %d catalogue keys, %d comparisons, %d problems, %d half-open ranges"
        % (len(specs["specs"]), len(cat["keys"]), n[0], len(problems), len(open_range)))
    return problems
